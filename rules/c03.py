"""C03 — No error is masked (DESIGN.md §3 C03)."""
import re
from vlib.mir import norm, loc_str, op_place, switch_info, explore
from vlib.facts import PRODUCT

DIAG_VEC = "alloc::vec::Vec<ironplc_dsl::diagnostic::Diagnostic>"
READ_ONLY_CALLS = ("::is_empty", "::len", "::iter", "::first", "::get", "::deref", "::fmt", "::as_slice", "::contains", "::clone", "::last")


def acc_fields_of_type(ctx, ty):
    """field paths (tuple of names) inside a local of this type that hold a Vec<Diagnostic>; [] if none"""
    if ty == DIAG_VEC:
        return [()]
    if ty.startswith("(") and DIAG_VEC in ty:
        # tuple: find the index
        parts = split_top(ty[1:-1])
        return [(str(i),) for i, p in enumerate(parts) if p.strip() == DIAG_VEC]
    adt = ctx.facts.adts.get(strip_generics(ty))
    if adt and adt["kind"] == "struct":
        return [(f["name"],) for f in adt["variants"][0]["fields"] if f["ty"] == DIAG_VEC]
    return []


def strip_generics(ty):
    i = ty.find("<")
    return ty if i < 0 else ty[:i]


def split_top(s):
    out, depth, cur = [], 0, ""
    for ch in s:
        if ch in "<([":
            depth += 1
        elif ch in ">)]":
            depth -= 1
        if ch == "," and depth == 0:
            out.append(cur)
            cur = ""
        else:
            cur += ch
    if cur.strip():
        out.append(cur)
    return out


def rule_acc(ctx, rep):
    r = rep.rule("R-C03-acc", "a diagnostic accumulator (Vec<Diagnostic> local / field of a local visitor / tuple part of a call result) that may have "
                              "received diagnostics is read or moved out before the function returns Ok", floor=20, floor_what="functions with accumulators")
    for b in sorted(ctx.prog.bodies.values(), key=lambda x: x.id):
        if b.f["crate"] not in PRODUCT or b.f["dk"] == "Closure":
            continue
        ret_ty = b.local_ty(0)
        if not ret_ty.startswith("core::result::Result<"):
            continue
        accs = {}   # (local, fieldpath) -> name
        for l in range(b.f["argc"] + 1, len(b.f["locals"])):
            ty = b.local_ty(l)
            if ty.startswith("&"):
                continue
            for fp in acc_fields_of_type(ctx, ty):
                accs[(l, fp)] = (b.local_name(l) or "_%d" % l) + ("." + ".".join(fp) if fp else "")
        # only locals that are named (user variables) or call results; drop pure temporaries that are moved once
        accs = {k: v for k, v in accs.items() if b.local_name(k[0])}
        if not accs:
            continue

        def which(place):
            """accumulator key a place refers to (the place, or a struct local containing it), or None"""
            if place is None:
                return []
            rt = b.root(place)
            names = tuple(x[2] for x in rt[1] if isinstance(x, list) and x[0] == "f")
            out = []
            for (l, fp) in accs:
                if l != rt[0]:
                    continue
                if names[:len(fp)] == fp or fp[:len(names)] == names:
                    out.append((l, fp))
            return out

        def is_mut_arg(op):
            p = op_place(op)
            if p is None or p[1]:
                return False
            d = b.single_def(p[0])
            return bool(d and d[0] == "stmt" and d[3][0] == "ref" and d[3][1] == "mut")

        def step(st, bb):
            status, ret = st
            status = dict(status)
            for s in b.stmts(bb):
                if s[0] != "=":
                    continue
                rv = s[2]
                if s[1] == [0, []] and rv[0] == "agg" and rv[1].get("adt") == "core::result::Result":
                    ret = rv[1]["variant"]
                # moves out of the accumulator by plain statements (into aggregates, _0, other locals)
                from vlib.mir import rvalue_operands
                for o in rvalue_operands(rv):
                    if o[0] == "mv":
                        for k in which(o[1]):
                            # moving the whole visitor struct also moves its field
                            status[k] = "Moved"
            c = b.call_at(bb)
            if c is not None:
                if c.callee and "from_residual" in c.callee and c.dest == [0, []]:
                    ret = "Err"
                for a in c.args:
                    p = op_place(a)
                    if p is None:
                        continue
                    ks = which(p)
                    if not ks:
                        continue
                    for k in ks:
                        if a[0] == "mv" and not b.root(p)[1] and b.root(p)[0] == k[0] and op_is_value(b, a):
                            status[k] = "Moved"
                        elif is_mut_arg(a):
                            if c.callee and c.callee.endswith(("::push", "::extend", "::append", "::insert", "::extend_from_slice")) or not (c.callee or "").endswith(READ_ONLY_CALLS):
                                if status.get(k) != "Moved":
                                    status[k] = "Dirty"
                        else:
                            if status.get(k) == "Dirty":
                                status[k] = "Checked"
                # call results stored into an accumulator local (tuple results etc.)
                if not c.dest[1]:
                    for (l, fp) in accs:
                        if l == c.dest[0]:
                            status[(l, fp)] = "Dirty"
            return (tuple(sorted(status.items())), ret)

        def op_is_value(bd, a):
            p = op_place(a)
            d = bd.single_def(p[0]) if p and not p[1] else None
            # a temp that is a reference is not a move of the vector itself
            return not (d and d[0] == "stmt" and d[3][0] in ("ref", "ptr"))

        try:
            rets = explore(b, ((), None), step, None, limit=60000)
        except RuntimeError as e:
            rep.error("R-C03-acc", str(e))
            continue
        finals = set()
        for sts in rets.values():
            finals |= sts
        bad = {}
        for status, ret in finals:
            if ret == "Ok":
                for k, v in status:
                    if v == "Dirty":
                        bad[k] = True
        fn = norm(b.id)
        where = "%s:%d" % (b.f["file"], b.f["line"])
        if bad:
            for k in sorted(bad):
                r.finding("%s|%s" % (fn, accs[k]), where, "returns Ok on a path where `%s` may hold diagnostics that were never read or moved out" % accs[k])
        else:
            r.ok("%s|%s" % (fn, ",".join(sorted(accs.values()))), where)


DECL_V = re.compile(r"ironplc_dsl::common::(\w*Declaration\w*|LibraryElementKind|DataTypeDeclarationKind)")


def variants_reaching(ctx, cb, c, arg):
    """The value `arg` handed to call `c` in body `cb` is a whole enum of declarations (not a freshly built variant): which variants can it
    hold there?  If the call sits on the Some side of `match helper(&value)` for a helper of the analyzer that maps the variant to an
    Option, the variants for which the helper answers Some; otherwise every variant of the enum.  -> (adt short name, [variant names])"""
    from vlib.mir import switch_info
    p = op_place(arg)
    if p is None:
        return None
    ty = re.sub(r"&('\S+ )?(mut )?", "", cb.local_ty(p[0]) or "").strip()
    a = ctx.facts.adts.get(ty)
    if not a or a["kind"] != "enum" or not DECL_V.search(ty):
        return None
    allv = [v["name"] for v in a["variants"]]
    # helper(&value) -> Option<..> whose Some edge dominates the call
    dom = cb.dominators().get(c.bb, set())
    for hc in cb.calls():
        if not (hc.callee or "").startswith("ironplc_analyzer::") or hc.bb == c.bb or not hc.args:
            continue
        hbs = ctx.prog.get(hc.callee)
        if not hbs or "core::option::Option" not in (hbs[0].local_ty(0) or ""):
            continue
        hp = op_place(hc.args[0])
        if hp is None or ty not in (cb.local_ty(hp[0]) or ""):
            continue
        # is the call on the Some side of a match on (a value derived from) the helper's result?
        on_some = False
        for d in dom:
            si = switch_info(cb, d)
            if si and si["kind"] == "disc" and si.get("adt") == "core::option::Option":
                for succ, labs in si["edges"].items():
                    if labs == ["Some"] and (succ in dom or succ == c.bb):
                        on_some = True
        if not on_some:
            continue
        hb = hbs[0]
        some = []
        for i in sorted(hb.reachable(0)):
            si = switch_info(hb, i)
            if not si or si["kind"] != "disc" or si.get("adt") != ty:
                continue
            entries = set(si["edges"])
            for succ, labs in si["edges"].items():
                region = hb.reachable(succ, avoid=tuple(entries - {succ}))
                makes_some = any(x in region and st[0] == "=" and st[2][0] == "agg" and isinstance(st[2][1], dict) and st[2][1].get("adt") == "core::option::Option"
                                 and st[2][1].get("variant") == "Some" for x, _, st in hb.all_stmts())
                if makes_some:
                    some += [l for l in labs if l in allv]
            break
        if some:
            return ty.split("::")[-1], sorted(set(some))
    return ty.split("::")[-1], allv


def decl_instantiations(ctx, b):
    """for a generic helper: the declaration value types its callers (in the analyzer) instantiate it with"""
    out = set()
    n = norm(b.id)
    for cb in ctx.prog.bodies.values():
        if cb.f["crate"] != "ironplc_analyzer":
            continue
        for c in cb.calls():
            if c.callee == n and c.ga:
                for t in split_top(c.ga.strip("[]")):
                    m = DECL_V.search(t)
                    if m:
                        # the concrete declaration handed in: variant of the aggregate argument if visible
                        what = t.strip().split("::")[-1]
                        whole = None
                        for a in c.args:
                            p = op_place(a)
                            d = cb.single_def(p[0]) if p and not p[1] else None
                            if d and d[0] == "stmt" and d[3][0] == "agg" and d[3][1].get("k") == "adt" and DECL_V.search(d[3][1]["adt"]):
                                what = "%s::%s" % (d[3][1]["adt"].split("::")[-1], d[3][1]["variant"])
                            elif whole is None:
                                whole = variants_reaching(ctx, cb, c, a)
                        if "::" not in what and whole:
                            for v in whole[1]:
                                out.add("%s::%s" % (whole[0], v))
                        else:
                            out.add(what)
    return out


def failed_lookup_guard(b, c):
    """the insert is dominated by the `absent` outcome of a lookup of the same map and key:
    contains_key(..) == false, or get/get_key_value(..) matched None"""
    from rules import panics
    from vlib.mir import switch_info
    mp = b.root(op_place(c.args[0])) if op_place(c.args[0]) else None
    for g in panics._cmp_guards(b, c.bb):
        if g[0] == "call" and (g[1].callee or "").endswith(("HashMap::contains_key", "BTreeMap::contains_key")) and not g[4]:
            return True
    for d in b.dominators().get(c.bb, set()):
        si = switch_info(b, d)
        if not si or si["kind"] != "disc" or si["subject"][0] != "call":
            continue
        lc = si["subject"][1]
        if not (lc.callee or "").endswith(("Map::get", "Map::get_key_value", "Map::get_mut")):
            continue
        if mp is not None and op_place(lc.args[0]) is not None and b.root(op_place(lc.args[0]))[0] != mp[0]:
            continue
        for succ, labs in si["edges"].items():
            if labs == ["None"] and (succ == c.bb or succ in b.dominators().get(c.bb, set())):
                return True
        # `if let Some(..) = lookup { return Err }` : the insert is only reachable through the None edge
        some_t = [s for s, l in si["edges"].items() if l == ["Some"]]
        none_t = [s for s, l in si["edges"].items() if l == ["None"]]
        if some_t and none_t and c.bb not in b.reachable(some_t[0]) and c.bb in b.reachable(none_t[0]):
            return True
    return False


def rule_insert(ctx, rep):
    r = rep.rule("R-C03-insert", "a name-keyed map insert of a declaration in the analyzer must not silently overwrite: the returned "
                                 "Option is inspected, or the insert is dominated by a failed lookup of the same key", floor=12, floor_what="declaration inserts")
    counts = {}
    for b in sorted(ctx.prog.bodies.values(), key=lambda x: x.id):
        if b.f["crate"] != "ironplc_analyzer":
            continue
        for c in sorted(b.calls(), key=lambda c: (c.loc[0], c.loc[1])):
            collected = False
            if c.callee and c.callee.endswith(("HashMap::insert", "BTreeMap::insert")):
                ga = split_top((c.ga or "[]").strip("[]"))
            elif (c.callee or c.u or "").split("::")[-1] in ("collect", "from_iter") and not c.dest[1]:
                # the same loop written as an iterator chain: collecting pairs into a map keeps the last pair of a key, like an insert whose result is ignored
                mt = re.match(r"^std::collections::(?:hash::map::)?HashMap<(.*)>$|^alloc::collections::(?:btree::map::)?BTreeMap<(.*)>$", (b.local_ty(c.dest[0]) or "").strip())
                if not mt:
                    continue
                ga = split_top(mt.group(1) or mt.group(2))
                collected = True
            else:
                continue
            if len(ga) < 2:
                continue
            k, v = ga[0].strip(), ga[1].strip()
            if k.lstrip("&'{erased} ") not in ("ironplc_dsl::core::Id", "ironplc_dsl::common::Type"):
                continue
            fn = norm(b.id)
            whats = []
            if DECL_V.search(v):
                what = v.split("::")[-1]
                vp = op_place(c.args[2]) if not collected and len(c.args) > 2 else None
                vd = b.single_def(vp[0]) if vp and not vp[1] else None
                if vd and vd[0] == "stmt" and vd[3][0] == "agg" and vd[3][1].get("k") == "adt":
                    what += "::" + vd[3][1]["variant"]
                whats = [what]
            elif re.fullmatch(r"[A-Z]\w*/#\d+", v):
                whats = sorted(decl_instantiations(ctx, b))
            if not whats:
                continue
            dl = c.dest[0]
            used = [] if collected else [kk for _, kk, p in b.place_uses() if p[0] == dl and kk not in ("write", "drop")]
            guarded = False if collected else failed_lookup_guard(b, c)
            for what in whats:
                n = counts[(fn, what)] = counts.get((fn, what), 0) + 1
                inst = "%s|insert %s#%d" % (fn, what, n)
                if used or guarded:
                    r.ok(inst, loc_str(b.f, c.loc), "guarded by a failed lookup" if guarded else "result inspected")
                elif fn.startswith("ironplc_analyzer::rule_") and downstream_of_duplicate_detection(ctx, what):
                    r.justified(inst, "lookup table of a semantic rule: rules only run after resolve_types succeeded (R-C02-registry), and "
                                      "SymbolTable::add_if_new rejects a second %s of the same name there (verified: the type-table visitor "
                                      "calls add_if_new for this kind)" % what, loc_str(b.f, c.loc))
                else:
                    r.finding(inst, loc_str(b.f, c.loc), "result of insert ignored: a second declaration with the same name silently replaces the first")


def rule_dupreport(ctx, rep, rid="R-C03-dupreport"):
    """Where a duplicate name is detected by a look-up before the insert (`if let Some(first) = map.get_key_value(&name) { return Err(..) }`),
    the branch on which the name is already present must end in an error on every path.  An `Ok` on that branch ("it is the same
    declaration anyway") silently drops a declaration - which one depends on the order of the files."""
    from vlib.mir import switch_info
    r = rep.rule(rid, "when a declaration map already holds the name, every path of that branch returns an error (no silent `Ok` for a name that is present)",
                 floor=1, floor_what="look-up guarded declaration inserts")
    n = 0
    for b in sorted(ctx.prog.bodies.values(), key=lambda x: x.id):
        if b.f["crate"] != "ironplc_analyzer" or "::test" in norm(b.id):
            continue
        for c in sorted(b.calls(), key=lambda c: (c.loc[0], c.loc[1])):
            if not (c.callee and c.callee.endswith(("HashMap::insert", "BTreeMap::insert"))):
                continue
            ga = split_top((c.ga or "[]").strip("[]"))
            if len(ga) < 2 or ga[0].strip().lstrip("&'{erased} ") not in ("ironplc_dsl::core::Id", "ironplc_dsl::common::Type"):
                continue
            if not str(b.local_ty(0)).startswith("core::result::Result"):
                continue
            mp = b.root(op_place(c.args[0])) if op_place(c.args[0]) else None
            for d in sorted(b.dominators().get(c.bb, set())):
                si = switch_info(b, d)
                if not si or si["kind"] != "disc" or si["subject"][0] != "call":
                    continue
                lc = si["subject"][1]
                if not (lc.callee or "").endswith(("Map::get", "Map::get_key_value", "Map::get_mut")):
                    continue
                if mp is not None and op_place(lc.args[0]) is not None and b.root(op_place(lc.args[0]))[0] != mp[0]:
                    continue
                some_t = [s_ for s_, l in si["edges"].items() if l == ["Some"]]
                none_t = [s_ for s_, l in si["edges"].items() if l == ["None"]]
                if not some_t or not none_t or c.bb in b.reachable(some_t[0], avoid=set(none_t)):
                    continue
                n += 1
                inst = "%s|name present" % norm(b.id).split("::")[-1]
                region = b.reachable(some_t[0], avoid=set(none_t))
                oks = [i for i, j, st in b.all_stmts() if i in region and st[0] == "=" and st[1] == [0, []] and st[2][0] == "agg" and st[2][1].get("adt") == "core::result::Result" and st[2][1]["variant"] == "Ok"]
                errs = [i for i, j, st in b.all_stmts() if i in region and st[0] == "=" and st[1] == [0, []] and st[2][0] == "agg" and st[2][1].get("adt") == "core::result::Result" and st[2][1]["variant"] == "Err"]
                if oks:
                    r.finding(inst + "|ok-on-duplicate", loc_str(b.f, c.loc), "on the branch where the name is already in the map a path returns Ok: the second declaration is dropped without "
                              "P0019, and which of the two survives depends on the order in which the files are read")
                elif not errs:
                    r.finding(inst + "|no-error", loc_str(b.f, c.loc), "the branch where the name is already present constructs no error")
                else:
                    r.ok(inst, loc_str(b.f, c.loc), "every path of the Some branch returns Err")
                break


def downstream_of_duplicate_detection(ctx, what):
    """the SymbolTable<Type, TypeDefinitionKind> visitor of xform_resolve_late_bound_type_initializer calls add_if_new for this kind"""
    want = {"FunctionBlockDeclaration": "visit_function_block_declaration", "EnumerationDeclaration": "visit_data_type_declaration_kind"}.get(what)
    if not want:
        return False
    for b in ctx.prog.bodies.values():
        if b.f["crate"] == "ironplc_analyzer" and b.f["name"] == want and "xform_resolve_late_bound_type_initializer" in b.f["file"]:
            if any((c.callee or "").endswith("::add_if_new") for c in b.calls()):
                return True
    return False


def rule_drain(ctx, rep):
    r = rep.rule("R-C03-drain", "xform_toposort_declarations: every declaration kind that is parked in a by-name map is also made a graph "
                                "node under the same name (otherwise re-assembly from sorted_ids drops it), or leftovers are appended", floor=8, floor_what="declaration kinds")
    ap = ctx.prog.get("ironplc_analyzer::xform_toposort_declarations::apply")
    if not ap:
        rep.error("R-C03-drain", "xform_toposort_declarations::apply not found")
        return
    b = ap[0]
    # kinds inserted by name
    kinds = []
    for c in b.calls():
        if c.callee and (c.callee.endswith(("HashMap::insert", "BTreeMap::insert")) or c.callee.endswith("xform_toposort_declarations::insert_unique")):
            vp = op_place(c.args[2])
            vd = b.single_def(vp[0]) if vp and not vp[1] else None
            if vd and vd[0] == "stmt" and vd[3][0] == "agg":
                kinds.append((vd[3][1]["adt"].split("::")[-1], vd[3][1]["variant"], c))
            else:
                # the declaration is handed on whole (`match name_of(&decl) { Some(name) => insert(name, decl), .. }`)
                whole = variants_reaching(ctx, b, c, c.args[2])
                if whole:
                    for v in whole[1]:
                        kinds.append((whole[0], v, c))
    # leftovers appended? (maps moved into a call after the merge: into_values / drain / extend(map))
    leftovers = False
    for c in b.calls():
        if c.callee and ("into_values" in c.callee or c.callee.endswith("HashMap::drain") or "IntoIterator>::into_iter" in c.callee and "HashMap" in (c.ga or "")):
            leftovers = True
    # visitor overrides that call add_node with their own name
    VIS = "ironplc_analyzer::xform_toposort_declarations::RuleGraphReferenceableElements"
    overrides = {}
    for vb in ctx.prog.bodies.values():
        im = vb.f.get("impl")
        if im and im.get("self") == VIS and im.get("trait_def") == "ironplc_dsl::visitor::Visitor":
            from rules.c07 import may_do
            overrides[vb.f["name"]] = may_do(ctx, vb, "DeclarationsGraph::add_node")
    # map variant -> the visit method of its payload type
    def visit_name(adt, variant):
        a = ctx.facts.adts.get("ironplc_dsl::common::" + adt)
        if not a:
            return None
        for v in a["variants"]:
            if v["name"] == variant and v["fields"]:
                ty = v["fields"][0]["ty"].split("::")[-1]
                return "visit_" + re.sub(r"(?<!^)(?=[A-Z])", "_", ty).lower()
        return None
    for adt, variant, c in kinds:
        vn = visit_name(adt, variant)
        inst = "%s::%s" % (adt, variant)
        if leftovers:
            r.ok(inst, loc_str(b.f, c.loc), "leftovers appended")
        elif vn and overrides.get(vn):
            r.ok(inst, loc_str(b.f, c.loc), "%s adds a node" % vn)
        else:
            r.finding(inst, loc_str(b.f, c.loc), "kind is parked by name but %s does not add a graph node: an unreferenced declaration of this kind vanishes from the library" % (vn or "its visitor"))


def rule_merge(ctx, rep, rid="R-C03-merge"):
    r = rep.rule(rid, "re-assembly after the sort drains each by-name map on its own: no remove() on one declaration map is control-dependent "
                                "on the outcome of a remove() on the other (a type and a POU may share a name)", floor=2, floor_what="remove() calls in the merge")
    ap = ctx.prog.get("ironplc_analyzer::xform_toposort_declarations::apply")
    if not ap:
        rep.error(rid, "apply not found")
        return
    bodies = [ap[0]] + [cb for cb in ctx.prog.bodies.values() if cb.f.get("parent") == ap[0].id]
    from vlib.mir import switch_info
    n = 0
    for b in bodies:
        rem = [c for c in b.calls() if (c.callee or "").endswith(("HashMap::remove", "BTreeMap::remove"))]

        def map_of(c):
            p = op_place(c.args[0])
            rt = b.root(p) if p else None
            if rt is None:
                return None
            # closure capture: _1.<n> ; plain local otherwise
            return (rt[0], tuple(x[2] for x in rt[1] if isinstance(x, list) and x[0] == "f"))
        for c in rem:
            n += 1
            inst = "%s|remove#%d" % (norm(b.id).replace("ironplc_analyzer::xform_toposort_declarations::", ""), n)
            dep = None
            for d in b.dominators().get(c.bb, set()):
                si = switch_info(b, d)
                if si and si["kind"] == "disc" and si["subject"][0] == "call":
                    oc = si["subject"][1]
                    if (oc.callee or "").endswith(("HashMap::remove", "BTreeMap::remove")) and oc.bb != c.bb and map_of(oc) != map_of(c):
                        dep = oc
            if dep is not None:
                r.finding(inst + "|depends-on-other-map", loc_str(b.f, c.loc), "this remove() only runs when the remove() on the other map found nothing: a POU that shares its name with a type is never emitted")
            else:
                r.ok(inst, loc_str(b.f, c.loc))


def rule_allsources(ctx, rep, rid="R-C03-allsources"):
    r = rep.rule(rid, "resolve_types merges every source library: in the loop over the sources Library::extend is executed on every iteration "
                      "(no path skips a library); Library::extend appends other.elements wholesale", floor=2)
    rb = ctx.prog.get("ironplc_analyzer::stages::resolve_types")
    if not rb:
        rep.error(rid, "resolve_types not found")
        return
    b = rb[0]
    from vlib.mir import switch_info
    from vlib import units
    ext = [(bd, c) for bd, c, site in units.calls_in_unit(ctx, b) if c.callee == "ironplc_dsl::common::Library::extend"]
    where = "%s:%d" % (b.f["file"], b.f["line"])
    if len(ext) != 1:
        r.finding("resolve_types|shape", where, "expected one Library::extend in resolve_types and its closures, found %d" % len(ext))
        return
    bd, c = ext[0]
    ok, how = units.visits_every_item(ctx, b, bd, c)
    # ... and what is iterated is the `sources` parameter itself
    rule_extend_whole(ctx, r)
    if ok:
        r.ok("resolve_types|every iteration extends", loc_str(bd.f, c.loc), how)
    else:
        r.finding("resolve_types|skippable-source", loc_str(bd.f, c.loc), "a source library can be passed over without being merged (%s): its declarations (and its errors) vanish" % how)


FILTERING = {"filter", "filter_map", "retain", "retain_mut", "dedup", "dedup_by", "dedup_by_key", "take", "skip", "take_while", "skip_while",
             "step_by", "contains", "truncate", "drain", "split_off", "find", "position"}


def rule_extend_whole(ctx, r):
    """Library::extend hands over every element of `other`: one append whose source is other.elements itself, no filtering adaptor."""
    bs = ctx.prog.get("ironplc_dsl::common::Library::extend")
    if not bs:
        r.finding("Library::extend|missing", None, "Library::extend not found")
        return
    b = bs[0]
    where = "%s:%d" % (b.f["file"], b.f["line"])
    bodies = [b] + [cb for cb in ctx.prog.bodies.values() if cb.f["dk"] == "Closure" and cb.f.get("parent") == b.id]
    filt = sorted({(c.callee or c.u or "").split("::")[-1] for bd in bodies for c in bd.calls()} & FILTERING)
    whole = False
    for c in b.calls():
        nm = (c.callee or c.u or "").split("::")[-1]
        if nm not in ("extend", "append") or len(c.args) < 2:
            continue
        rp, ap = op_place(c.args[0]), op_place(c.args[1])
        if rp is None or ap is None:
            continue
        rr, ar = b.root(rp), b.root(ap)
        # follow one into_iter()/iter() call on the argument
        if ar[0] > b.f["argc"]:
            d = b.single_def(ar[0])
            if d and d[0] == "call" and (d[2].callee or d[2].u or "").split("::")[-1] in ("into_iter", "iter", "drain") and d[2].args:
                p2 = op_place(d[2].args[0])
                if p2 is not None:
                    ar = b.root(p2)
        rf = [x[2] for x in rr[1] if isinstance(x, list) and x[0] == "f"]
        af = [x[2] for x in ar[1] if isinstance(x, list) and x[0] == "f"]
        if rr[0] == 1 and ar[0] == 2 and rf == ["elements"] and af == ["elements"] and c.bb in b.dominators().get(b.returns()[0] if b.returns() else c.bb, {c.bb}):
            whole = True
    if filt:
        r.finding("Library::extend|filters:" + ",".join(filt), where, "Library::extend inspects/filters the incoming elements (%s): declarations of a later source can be dropped before the duplicate check sees them" % ", ".join(filt))
    elif not whole:
        r.finding("Library::extend|not-wholesale", where, "no unconditional self.elements.extend/append(other.elements) found")
    else:
        r.ok("Library::extend|appends other.elements wholesale", where)


def rule_grow(ctx, rep, rid="R-C03-grow"):
    """While the command line assembles the set of files to check, files only come in.  A project method that clears or replaces
    the source table (`initialize` starts with `sources.clear()`) called in that loop forgets the files named before it - and with
    them their errors."""
    r = rep.rule(rid, "cli::create_project only adds sources: no method it calls on the project clears, removes from or replaces "
                      "FileBackedProject.sources", floor=1, floor_what="project methods called while assembling the file set")
    cb = ctx.prog.get("ironplcc::cli::create_project")
    if not cb:
        rep.error(rid, "cli::create_project not found")
        return
    b = cb[0]
    PROJ = "ironplcc::project::FileBackedProject"

    def shrinks(m, depth=0, seen=None):
        seen = seen or set()
        if m.id in seen or depth > 3:
            return None
        seen.add(m.id)
        for i, j, st in m.all_stmts():
            if st[0] == "=" and st[1][1]:
                fl = [x for x in st[1][1] if isinstance(x, list) and x[0] == "f"]
                if fl and fl[-1][3] == PROJ and fl[-1][2] == "sources" and st[1][1][-1] == fl[-1]:
                    return "assigns self.sources (%s:%d)" % (m.f["file"], st[3][0])
        for c in m.calls():
            nm = (c.callee or c.u or "").split("::")[-1]
            if nm in ("clear", "remove", "retain", "drain", "take", "split_off", "pop_first", "pop_last", "remove_entry", "truncate") and c.args:
                p = op_place(c.args[0])
                rt = m.root(p) if p else None
                fl = [x for x in (rt[1] if rt else []) if isinstance(x, list) and x[0] == "f"]
                if fl and fl[-1][3] == PROJ and fl[-1][2] == "sources":
                    return "%s() on self.sources (%s:%d)" % (nm, m.f["file"], c.loc[0])
            for t in (ctx.prog.get(c.callee) if c.callee else []):
                if PROJ in norm(t.id):
                    why = shrinks(t, depth + 1, seen)
                    if why:
                        return why
        return None
    n = 0
    bodies = [b] + [cb_ for cb_ in ctx.prog.bodies.values() if cb_.f["dk"] == "Closure" and cb_.f.get("parent") == b.id]
    for bd in bodies:
        for c in sorted(bd.calls(), key=lambda c: (c.loc[0], c.loc[1])):
            tg = [t for t in (ctx.prog.get(c.callee) if c.callee else []) if PROJ in norm(t.id)]
            if c.rk in ("virtual", "unresolved"):
                tg += [t for t in ctx.prog.impls.get(c.u, []) if PROJ in norm(t.id)]
            for t in tg:
                n += 1
                why = shrinks(t)
                inst = "create_project|calls %s" % norm(t.id).split("::")[-1]
                if why:
                    r.finding(inst + "|shrinks-sources", loc_str(bd.f, c.loc), "%s %s: files named by earlier arguments are forgotten, their errors with them" % (norm(t.id).split("::")[-1], why))
                else:
                    r.ok(inst, loc_str(bd.f, c.loc))


def _list_root(b, p, hops=6):
    """the local a list expression is taken from: through field projections, borrows, derefs and the by-value adaptors
    into_iter / iter / as_slice / deref (`diagnostics.into_iter().next()` is about `diagnostics`)"""
    for _ in range(hops):
        if p is None:
            return None
        rt = b.root(p)
        d = b.single_def(rt[0]) if not [x for x in rt[1] if isinstance(x, list) and x[0] == "f"] else None
        if d and d[0] == "call" and (d[2].callee or d[2].u or "").split("::")[-1] in ("into_iter", "iter", "iter_mut", "as_slice", "deref", "deref_mut", "as_ref", "borrow") and d[2].args:
            p = op_place(d[2].args[0])
            continue
        if d and d[0] == "stmt" and d[3][0] == "use" and d[3][1][0] in ("cp", "mv"):
            p = d[3][1][1]
            continue
        return rt
    return b.root(p) if p is not None else None


def known_empty_at(b, site_bb, lst):
    """is the list rooted at local `lst` known to be empty whenever block `site_bb` runs?  Accepted evidence, in whatever way it is
    written: `is_empty()` holds, `len() == 0` holds / `len() != 0`, `len() > 0`, `len() >= 1` do not, or taking its first element
    (`first()`, `get(0)`, `iter().next()`, `into_iter().next()`) gave None."""
    from rules import panics
    from vlib.mir import switch_info

    def about(p):
        rt = _list_root(b, p)
        return rt is not None and rt[0] == lst
    for g in panics._cmp_guards(b, site_bb):
        if g[0] == "call" and (g[1].callee or "").split("::")[-1] == "is_empty" and g[4] and g[1].args and about(op_place(g[1].args[0])):
            return True
        if g[0] == "bin":
            _, op2, a, c, holds = g
            for x, y, o in ((a, c, op2), (c, a, {"Lt": "Gt", "Gt": "Lt", "Le": "Ge", "Ge": "Le"}.get(op2, op2))):
                xp = op_place(x)
                v = panics._int_const(b, y)
                d = b.single_def(b.root(xp)[0]) if xp is not None else None
                if v is None or not (d and d[0] == "call" and (d[2].callee or "").split("::")[-1] == "len" and d[2].args and about(op_place(d[2].args[0]))):
                    continue
                if (o == "Eq" and holds and v == 0) or (o == "Ne" and not holds and v == 0) or (o == "Gt" and not holds and v == 0) or \
                        (o == "Ge" and not holds and v == 1) or (o == "Lt" and holds and v == 1) or (o == "Le" and holds and v == 0):
                    return True
    dom = b.dominators()
    for d_ in dom.get(site_bb, set()):
        si = switch_info(b, d_)
        if not si or si["kind"] != "disc" or si.get("adt") != "core::option::Option" or si["subject"][0] != "call":
            continue
        c = si["subject"][1]
        nm = (c.callee or c.u or "").split("::")[-1]
        first = nm in ("first", "next") or (nm == "get" and len(c.args) > 1 and panics._int_const(b, c.args[1]) == 0)
        if not first or not c.args or not about(op_place(c.args[0])) or si["subject"][2:] and si["subject"][2]:
            continue
        if nm == "next" and any(c2 is not c and c2.args and op_place(c2.args[0]) is not None and b.root(op_place(c2.args[0]))[0] == b.root(op_place(c.args[0]))[0]
                                and (c2.callee or c2.u or "").split("::")[-1] in ("next", "nth", "skip", "advance_by") for c2 in b.calls() if c2.bb in dom.get(c.bb, set())):
            continue        # not the first element
        for succ, labs in si["edges"].items():
            if labs == ["None"] and (succ == site_bb or succ in dom.get(site_bb, set())) and panics._edge_dominates(b, d_, succ, site_bb):
                return True
    return False


def rule_first(ctx, rep):
    r = rep.rule("R-C03-first", "parse_program returns Err whenever the tokenizer reported anything (the parse runs only where the tokenizer's "
                                "diagnostics are known to be empty: is_empty / len()==0 / no first element)", floor=1)
    pb = ctx.prog.get("ironplc_parser::parse_program")
    if not pb:
        rep.error("R-C03-first", "parse_program not found")
        return
    b = pb[0]
    from rules import panics
    pl = [c for c in b.calls() if c.callee == "ironplc_parser::parser::parse_library"]
    tk = [c for c in b.calls() if c.callee == "ironplc_parser::tokenize_program"]
    if len(pl) != 1 or len(tk) != 1:
        r.finding("parse_program|shape", "%s:%d" % (b.f["file"], b.f["line"]), "expected one tokenize_program and one parse_library call")
        return
    ok = known_empty_at(b, pl[0].bb, tk[0].dest[0])
    if ok:
        r.ok("parse_program|empty-diagnostics-dominate-parse", loc_str(b.f, pl[0].loc))
    else:
        r.finding("parse_program|tokenizer-errors-ignored", loc_str(b.f, pl[0].loc), "parse_library is reachable although the tokenizer's diagnostics were not found empty")


REVERSE_SEARCH = ("rfind", "rsplit", "rsplit_once", "rsplitn", "rmatches", "rmatch_indices", "rsplit_terminator", "last", "next_back", "rposition", "rev")


def rule_optsense(ctx, rep, rid="R-C03-optsense"):
    """An option named `allow_x` switches a diagnostic *off* when it is set.  Where the parser tests such an option, the problems are
    constructed on the branch where the option is false and not on the branch where it is true (an inverted test silences the rule for
    everyone who did not ask for that)."""
    from vlib.mir import switch_info
    r = rep.rule(rid, "an `allow_*` option is tested in the right sense: problems are built where the option is false, none where it is true",
                 floor=1, floor_what="tests of allow_* options")
    for b in sorted(ctx.prog.bodies.values(), key=lambda x: x.id):
        if b.f["crate"] not in ("ironplc_parser", "ironplc_analyzer") or "::test" in norm(b.id):
            continue
        diag_bbs = {c.bb for c in b.calls() if (c.callee or "").endswith("Diagnostic::problem")}
        for i in sorted(b.reachable(0)):
            si = switch_info(b, i)
            if not si or si["kind"] != "bool" or si["subject"][0] != "place":
                continue
            fs = [x for x in b.root(si["subject"][1])[1] if isinstance(x, list) and x[0] == "f"]
            neg = False
            if not fs:
                # `!options.allow_x`: the switch is on the negation
                d = b.single_def(si["subject"][1][0]) if not si["subject"][1][1] else None
                if d and d[0] == "stmt" and d[3][0] == "un" and d[3][1] == "Not":
                    ip = op_place(d[3][2])
                    fs = [x for x in (b.root(ip)[1] if ip is not None else []) if isinstance(x, list) and x[0] == "f"]
                    neg = True
            if not fs or not fs[-1][2].startswith("allow_"):
                continue
            t_edge = [s_ for s_, l in si["edges"].items() if l == [True]]
            f_edge = [s_ for s_, l in si["edges"].items() if l == [False]]
            if not t_edge or not f_edge:
                continue
            allowed, denied = (f_edge[0], t_edge[0]) if neg else (t_edge[0], f_edge[0])
            reg_allowed = b.reachable(allowed, avoid={denied})
            reg_denied = b.reachable(denied, avoid={allowed})
            inst = "%s|%s" % (norm(b.id).split("::")[-2] + "::" + norm(b.id).split("::")[-1], fs[-1][2])
            where = "%s:%d" % (b.f["file"], b.f["line"])
            if (reg_allowed - reg_denied) & diag_bbs:
                r.finding(inst + "|inverted", where, "problems are built on the branch where `%s` is set, and the branch where it is not set returns without looking: the diagnostic is "
                          "never produced for users who did not set the option" % fs[-1][2])
            elif not (reg_denied & diag_bbs):
                r.finding(inst + "|no-diagnostic", where, "no problem is built on the branch where `%s` is not set" % fs[-1][2])
            else:
                r.ok(inst, where, "diagnostics only where the option is not set")


def rule_firstend(ctx, rep, rid="R-C03-firstend"):
    """The preprocessor blanks the text between a start marker and an end marker before the lexer sees it: whatever lies in between is never
    diagnosed.  The region must end at the first end marker.  A search from the back (rfind, rsplit_once, ...) makes the region run to
    the *last* marker of the file, so the declarations - and their errors - between two description blocks vanish."""
    r = rep.rule(rid, "the text-blanking steps of the preprocessor locate their markers by forward search only (no rfind/rsplit/...: a region "
                      "that ends at the last marker swallows everything between two blocks)", floor=2, floor_what="marker searches in the preprocessor")
    n = 0
    for b in sorted(ctx.prog.bodies.values(), key=lambda x: x.id):
        if b.f["crate"] != "ironplc_parser" or "preprocessor" not in b.f["file"] or "::test" in norm(b.id):
            continue
        k = {}
        for c in sorted(b.calls(), key=lambda c: (c.loc[0], c.loc[1])):
            nm = c.callee or ""
            m = nm.split("::")[-1]
            if "core::str" not in nm and "str::traits" not in nm and "alloc::str" not in nm and "Iterator" not in (c.u or ""):
                continue
            if m in ("find", "split_once", "match_indices", "matches", "split", "splitn") and "str" in nm:
                n += 1
                i = k[m] = k.get(m, 0) + 1
                r.ok("%s|%s#%d" % (norm(b.id).split("::")[-1], m, i), loc_str(b.f, c.loc), "forward search")
            elif m in REVERSE_SEARCH and ("str" in nm or "Iterator" in (c.u or "")):
                n += 1
                i = k[m] = k.get(m, 0) + 1
                r.finding("%s|%s#%d|reverse-search" % (norm(b.id).split("::")[-1], m, i), loc_str(b.f, c.loc), "%s() locates a marker from the end of the text: with two blocks in a file the blanked "
                          "region runs from the first start marker to the last end marker and everything in between (declarations and their errors) disappears" % m)


def rule_anycode(ctx, rep, rid="R-C03-anycode"):
    """Every problem makes the check fail, whatever its code.  The command-line and project glue (crate ironplcc) shows the code of a problem
    but never *decides* on it: a value read from Diagnostic.code reaches no comparison and no branch.  Otherwise some class of problems
    (say, "not implemented") is waved through, and because the analysis stops at the first failing stage, whatever that problem was
    hiding is waved through with it.  Zero expected."""
    from vlib import units
    from vlib.mir import loc_str
    r = rep.rule(rid, "the glue around the analysis (crate ironplcc) never decides on the code of a problem: a value read from Diagnostic.code reaches no comparison or branch "
                      "(it is only shown)", floor=1, floor_what="reads of Diagnostic.code in ironplcc")
    n = 0
    for b in sorted(ctx.prog.bodies.values(), key=lambda x: x.id):
        if b.f["crate"] != "ironplcc" or "::test" in norm(b.id) or b.f.get("exp"):
            continue
        seeds = set()
        for i, j, st in b.all_stmts():
            if st[0] != "=":
                continue
            pl = None
            if st[2][0] == "ref":
                pl = st[2][2]
            elif st[2][0] == "use":
                pl = op_place(st[2][1])
            if pl is None:
                continue
            rt = b.root(pl)
            if any(isinstance(x, list) and x[0] == "f" and x[2] == "code" and (x[3] or "").endswith("diagnostic::Diagnostic") for x in rt[1]):
                seeds.add(st[1][0])
        for c in b.calls():
            for a in c.args:
                p = op_place(a)
                if p is not None and any(isinstance(x, list) and x[0] == "f" and x[2] == "code" and (x[3] or "").endswith("diagnostic::Diagnostic") for x in b.root(p)[1]):
                    seeds.add(("call", c.bb))
        if not seeds:
            continue
        n += 1
        fn = norm(b.id).replace("ironplcc::", "")
        # forward propagation that stops at formatting: text made *from* the code (a message, a link) is display, and what happens to that
        # text (a URL that fails to parse) is no decision on the code
        taint = {x for x in seeds if not isinstance(x, tuple)}
        changed = True
        from vlib.mir import rvalue_operands
        while changed:
            changed = False
            for i, j, st in b.all_stmts():
                if st[0] == "=" and st[1][0] not in taint:
                    ops = [op_place(o) for o in rvalue_operands(st[2])]
                    if st[2][0] in ("ref", "ptr"):
                        ops.append(st[2][2])
                    elif st[2][0] in ("disc", "len"):
                        ops.append(st[2][1])
                    if any(p is not None and p[0] in taint for p in ops):
                        taint.add(st[1][0])
                        changed = True
            for c in b.calls():
                nm = c.callee or c.u or ""
                if "fmt::" in nm or nm.endswith("::to_string") or "format" in nm.split("::")[-1]:
                    continue
                if c.dest[0] not in taint and any(op_place(a) is not None and op_place(a)[0] in taint for a in c.args):
                    taint.add(c.dest[0])
                    changed = True
        bad = []
        for c in b.calls():
            nm = (c.u or c.callee or "")
            last = nm.split("::")[-1]
            direct = ("call", c.bb) in seeds
            tainted = direct or any(op_place(a) is not None and op_place(a)[0] in taint for a in c.args)
            if tainted and last in ("eq", "ne", "cmp", "partial_cmp", "contains", "starts_with", "ends_with", "matches", "lt", "le", "gt", "ge"):
                bad.append((c, nm))
        for i in b.reachable(0):
            t = b.term(i)
            if t[0] == "switch":
                p = op_place(t[1])
                if p is not None and p[0] in taint:
                    d = b.single_def(p[0])
                    # the Result/Option of a formatting call is not a decision on the code
                    if d and d[0] == "call" and ("fmt" in (d[2].callee or "") or "write" in (d[2].callee or "")):
                        continue
                    bad.append((None, "branch"))
        if bad:
            k = 0
            for c, nm in bad:
                k += 1
                r.finding("%s|decides on Diagnostic.code#%d" % (fn, k), loc_str(b.f, c.loc) if c is not None else "%s:%d" % (b.f["file"], b.f["line"]),
                          "the code of a problem decides something here (%s): problems of some code are treated differently from the others" % nm)
        else:
            r.ok(fn, "%s:%d" % (b.f["file"], b.f["line"]), "the code is only shown")


LOCAL_RULES = {
    "rule_unsupported_stdlib_type": "P0029: a variable of a standard function block type that is not implemented",
    "rule_decl_struct_element_unique_names": "P0003: two elements of one structure with the same name",
    "rule_decl_subrange_limits": "P0004: a subrange whose minimum is not below its maximum",
    "rule_enumeration_values_unique": "P0005: a value twice in one enumeration",
    "rule_var_decl_const_initialized": "P0016: a CONSTANT variable without an initial value",
}


def rule_local(ctx, rep, rid="R-C03-local"):
    """The rules whose verdict on a declaration needs nothing but that declaration must stay that way: a table of *other* declarations in
    the rule's visitor (the names of all function blocks, all types seen so far) is how "this file fails alone" turns into "this file passes
    next to that one".  For each listed rule module: every structure it defines has no collection-typed field other than its list of
    problems, and its `apply` builds no collection from the library before the walk."""
    r = rep.rule(rid, "the declaration-local rules (P0003, P0004, P0005, P0016, P0029) keep no table of other declarations: their visitor has no collection-typed field besides "
                      "the problems it gathers, and apply() gathers nothing from the library before the walk", floor=5, floor_what="declaration-local rule modules")
    COLL = re.compile(r"\b(HashMap|HashSet|BTreeMap|BTreeSet|IndexMap|IndexSet|SymbolTable|VecDeque|Vec)\s*<")
    for mod, what in sorted(LOCAL_RULES.items()):
        adts = [a for a in ctx.facts.adts.values() if a["crate"] == "ironplc_analyzer" and a["file"].endswith("/%s.rs" % mod)]
        bodies = [b for b in ctx.prog.bodies.values() if b.f["crate"] == "ironplc_analyzer" and b.f["file"].endswith("/%s.rs" % mod) and "::test" not in norm(b.id)]
        if not bodies:
            r.finding("%s|missing" % mod, None, "rule module not found (anchor moved)")
            continue
        bad = []
        for a in adts:
            if "test" in a["id"]:
                continue
            for v in a["variants"]:
                for fl in v["fields"]:
                    ty = fl["ty"]
                    for m in COLL.finditer(ty):
                        inner = ty[m.end():]
                        if m.group(1) == "Vec" and inner.lstrip().startswith("ironplc_dsl::diagnostic::Diagnostic"):
                            continue
                        # a set that is emptied (cleared / re-created) inside a visit method is per-declaration scratch space, not a table of
                        # other declarations
                        scratch = False
                        for vb in bodies:
                            if not vb.f["name"].startswith("visit_"):
                                continue
                            for c in vb.calls():
                                if (c.callee or "").split("::")[-1] in ("clear", "drain", "take") and c.args:
                                    p_ = op_place(c.args[0])
                                    fs_ = [x for x in vb.root(p_)[1] if isinstance(x, list) and x[0] == "f"] if p_ is not None else []
                                    if fs_ and fs_[-1][3] == a["id"] and fs_[-1][2] == fl["name"]:
                                        scratch = True
                            for _, _, st_ in vb.all_stmts():
                                if st_[0] == "=":
                                    fs_ = [x for x in st_[1][1] if isinstance(x, list) and x[0] == "f"]
                                    if fs_ and fs_[-1][3] == a["id"] and fs_[-1][2] == fl["name"] and len([x for x in st_[1][1] if isinstance(x, list)]) == len(fs_):
                                        scratch = True
                        if scratch:
                            continue
                        bad.append("%s.%s: %s" % (a["id"].split("::")[-1], fl["name"], ty[:80]))
        ap = [b for b in bodies if b.f["name"] == "apply" and b.f.get("dk") != "Closure"]
        for b in ap:
            for c in b.calls():
                if (c.callee or c.u or "").endswith("Iterator::collect") or (c.callee or "").split("::")[-1] in ("insert", "extend", "push") and "Diagnostic" not in (c.ga or ""):
                    ty = b.local_ty(c.dest[0]) or ""
                    if (c.callee or c.u or "").endswith("Iterator::collect") and "Diagnostic" in ty:
                        continue
                    bad.append("apply gathers a collection (%s)" % (c.callee or c.u or "?").split("::")[-1])
        where = "%s:%d" % (bodies[0].f["file"], min(b.f["line"] for b in bodies))
        if bad:
            r.finding("%s|keeps a table" % mod, where, "%s is decided on one declaration alone, but the rule keeps %s: what else is in the set can then change (or hide) the verdict" % (what, "; ".join(sorted(set(bad)))))
        else:
            r.ok(mod, where, what + " - no table of other declarations")


def run(ctx, rep):
    rep.not_decided += ["that every companion-independent semantic rule still fires in the presence of arbitrary other declarations (value-level)",
                        "'adding files may cure undeclared errors' monotonicity"]
    rep.assumptions += ["HashMap::insert returns Some(old) exactly when the key was present (std contract)"]
    rule_acc(ctx, rep)
    rule_insert(ctx, rep)
    rule_drain(ctx, rep)
    rule_first(ctx, rep)
    rule_merge(ctx, rep)
    rule_allsources(ctx, rep)
    from rules import c03_allwalks
    c03_allwalks.run(ctx, rep)
    rule_grow(ctx, rep)
    rule_local(ctx, rep)
    # a file that is named is in the set: push cannot say Ok for a file it did not add
    from rules.c13 import rule_pushadds, rule_exit
    rule_pushadds(ctx, rep, rid="R-C03-pushadds")
    # the failure of the command is the failure of the process: main hands the command's Result on unchanged (no exit code arithmetic)
    rule_exit(ctx, rep, rid="R-C03-exit")
    from rules import c03_errdrop
    c03_errdrop.run(ctx, rep, rid="R-C03-errdrop")
    # a faulty declaration between two comments must not be swallowed by the first comment
    from rules import c08_trivia
    c08_trivia.run_comment(ctx, rep, rid="R-C03-comment")
    # a changed document is checked as changed: its cached parse cannot outlive its text
    from rules.c11 import rule_cache
    rule_cache(ctx, rep, rid="R-C03-cache")
    rule_firstend(ctx, rep)
    rule_optsense(ctx, rep)
    rule_dupreport(ctx, rep)
    rule_anycode(ctx, rep)
    # an error in a use that names its enumeration must not be cured by an unrelated enumeration
    from rules.c02_enum import run_exact
    run_exact(ctx, rep, rid="R-C03-enumexact")
    # a faulty file must not be replaced in the file table by a different file that merely compares equal
    from rules.c06 import rule_types
    rule_types(ctx, rep, rid="R-C03-fileid")
    # a valid declaration must not hide a fault elsewhere through state a rule visitor carries from one scope to the next
    from rules.c02 import rule_scope
    rule_scope(ctx, rep, rid="R-C03-scope")
