"""R-C01-consume: every component of a structured value captured by a grammar rule is used by the rule's action.

A label binds the value returned by a sub-rule.  When that value is a struct or tuple and the action only projects
some of its fields (edition-2021 closures capture exactly the projected fields; the rest of the value is dropped in the
rule function), the unread components are source text that cannot influence the tree.  Handing the whole value on
(to a call, into a node, into the closure) counts as using every component."""
from vlib.mir import norm, op_place

GRAM = "ironplc_parser::parser::plc_parser::__parse_"
SPAN = "ironplc_dsl::core::SourceSpan"


def components(ctx, ty):
    """first-level components of a struct / tuple type: [(name, type)] or None"""
    if ty.startswith("(") and ty.endswith(")"):
        from rules.c03 import split_top
        parts = [p.strip() for p in split_top(ty[1:-1])]
        return [(str(i), p) for i, p in enumerate(parts)] if len(parts) > 1 else None
    a = ctx.facts.adts.get(ty)
    if a and a["kind"] == "struct" and a["crate"] == "ironplc_dsl":
        return [(f["name"], f["ty"]) for f in a["variants"][0]["fields"]]
    return None


def uses_of(b, base):
    """(whole_use, set of first-level fields read) for the value held at place `base` = (local, [proj...])"""
    whole, read = False, set()
    bl, bp = base
    nb = len(bp)
    for _, k, p in b.place_uses():
        if k in ("write", "drop"):
            continue
        for cand in (p, b.root(p)):
            if cand[0] != bl:
                continue
            proj = [x for x in cand[1] if x != "*"]
            bproj = [x for x in bp if x != "*"]
            if [str(x) for x in proj[:len(bproj)]] != [str(x) for x in bproj]:
                continue
            rest = [x for x in proj[len(bproj):] if isinstance(x, list) and x[0] == "f"]
            if rest:
                read.add(rest[0][2])
            else:
                whole = True
            break
    return whole, read


def placeholder_component(ctx, g, rule, label, ty, comp):
    """the sub-rule(s) bound to `label` in `rule` build their `ty` values with Id::from/Type::from(<constant>) in `comp`"""
    subs = set()

    def f(e, seq, c):
        if e.label == label and e.prim.kind == "call":
            subs.add(e.prim.name)
    if rule not in g.rules:
        return False
    g.walk_elems(g.rules[rule].expr, f)
    if not subs:
        return False
    found = False
    for sub in subs:
        for b in ctx.prog.bodies.values():
            if not norm(b.id).startswith(GRAM + sub + "::{closure"):
                continue
            for _, _, s in b.all_stmts():
                if s[0] == "=" and s[2][0] == "agg" and s[2][1].get("adt") == ty and comp in s[2][1].get("fields", []):
                    o = s[2][2][s[2][1]["fields"].index(comp)]
                    p = op_place(o)
                    d = b.single_def(p[0]) if p and not p[1] else None
                    if d and d[0] == "call" and d[2].callee in ("ironplc_dsl::core::Id::from", "ironplc_dsl::common::Type::from") and b.const_of(d[2].args[0]) is not None:
                        found = True
                    else:
                        return False
    return found


def run(ctx, rep, g):
    r = rep.rule("R-C01-consume", "every component (struct field / tuple element, spans excepted) of a value captured by a grammar label is read or "
                                  "moved on by the rule's action; a value handed on whole counts as fully used", floor=40, floor_what="structured captures")
    seen = set()
    for b in sorted(ctx.prog.bodies.values(), key=lambda x: x.id):
        n = norm(b.id)
        if not n.startswith(GRAM):
            continue
        rule = n[len(GRAM):].split("::")[0]
        where = "%s:%d" % (b.f["file"], b.f["line"])
        holders = []   # (name, type, base place)
        if b.f["dk"] == "Closure":
            for name, pl in b.f.get("upvars", []):
                fl = [x for x in pl[1] if isinstance(x, list) and x[0] == "f"]
                if len(fl) == 1 and pl[0] == 1:
                    holders.append((name, fl[0][5].lstrip("&").replace("mut ", ""), (1, [x for x in pl[1] if x != "*"]), fl[0][5].startswith("&")))
        else:
            for l in range(b.f["argc"] + 1, len(b.f["locals"])):
                name = b.local_name(l)
                if name and not name.startswith("__"):
                    holders.append((name, b.local_ty(l), (l, []), False))
        for name, ty, base, byref in holders:
            comps = components(ctx, ty)
            if not comps:
                continue
            whole, read = uses_of(b, base)
            inst = "rule %s|%s" % (rule, name)
            if b.f["dk"] != "Closure" and whole:
                # handed to the action closure (or a call) whole: the closure body is examined on its own
                continue
            if (inst, tuple(sorted(read)), whole) in seen:
                continue
            seen.add((inst, tuple(sorted(read)), whole))
            if whole:
                r.ok(inst, where, "handed on whole")
                continue
            if not read:
                continue
            unread = [c for c, t in comps if c not in read and t != SPAN]
            # a component that every producing rule fills with a placeholder constant carries no source text
            unread = [c for c in unread if not placeholder_component(ctx, g, rule, name, ty, c)]
            if unread:
                for c in unread:
                    r.finding("%s.%s|unread" % (inst, c), where, "the action reads %s of `%s` but never its component `%s`: that part of the source is dropped" % (sorted(read), name, c))
            else:
                # read somewhere - but on every way through the action?  (`match x.0 { A => f(x.1), B => g() }` drops x.1 for B)
                partial = []
                if b.f["dk"] == "Closure":
                    bl, bp = base
                    for cname, cty in comps:
                        if cty == SPAN or cname not in read:
                            continue
                        blocks = set()
                        for bb, k, p in b.place_uses():
                            if k in ("write", "drop"):
                                continue
                            for cand in (p, b.root(p)):
                                if cand[0] != bl:
                                    continue
                                proj = [x for x in cand[1] if x != "*"]
                                bproj = [x for x in bp if x != "*"]
                                if [str(x) for x in proj[:len(bproj)]] != [str(x) for x in bproj]:
                                    continue
                                rest = [x for x in proj[len(bproj):] if isinstance(x, list) and x[0] == "f"]
                                if (rest and rest[0][2] == cname) or not rest:
                                    blocks.add(bb)
                        if not blocks:
                            continue
                        # a normal return reachable from the entry without passing a block that reads the component
                        free = b.reachable(0, avoid=tuple(blocks))
                        rets = [x for x in free if b.term(x)[0] == "ret" and not b.is_cleanup(x)]
                        if 0 not in blocks and rets and not placeholder_component(ctx, g, rule, name, ty, cname):
                            partial.append(cname)
                if partial:
                    for c in partial:
                        r.finding("%s.%s|unread-on-a-path" % (inst, c), where, "the action reads component `%s` of `%s` on some of its paths only: on the others that part of the source is dropped" % (c, name))
                else:
                    r.ok(inst, where, "all components read")
