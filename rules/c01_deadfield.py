"""R-C01-deadfield: what the parser stores is looked at by someone.

A field of a DSL node that the parser fills and that no hand-written function and no generated traversal ever reads (only the derived
Clone / Debug / PartialEq touch it) is a place where source text goes in and nothing comes out: two programs that differ only there are the
same program to every consumer - the renderer, the analyzer, the language server.  It is also the usual sign of two sites that disagree
about where an information lives (`var_spec` stores the width of `WSTRING[5]` in StringSpecification.width; the conversion to a variable
decides the width by the *variant* it was wrapped in, which the grammar sets to String for both)."""
from vlib.mir import norm

SPAN = "ironplc_dsl::core::SourceSpan"
VALUE_IMPLS = ("clone", "fmt", "eq", "ne", "hash", "cmp", "partial_cmp", "default")


def run(ctx, rep, rid="R-C01-deadfield"):
    r = rep.rule(rid, "every field of a DSL node that the parser fills is read by some function other than the derived Clone/Debug/PartialEq "
                      "(hand-written code or a generated visit/fold)", floor=150, floor_what="fields of DSL structs built by the parser")
    # which DSL structs does the parser build (aggregates in the parser crate, or in DSL constructors it calls)
    built = set()
    from rules.c08_trivia import Trivia
    live = Trivia(ctx.peg).reachable("library")
    GRAM = "ironplc_parser::parser::plc_parser::__parse_"
    for b in ctx.prog.bodies.values():
        if b.f["crate"] not in ("ironplc_parser", "ironplc_dsl") or "::test" in norm(b.id):
            continue
        nb = norm(b.id)
        if nb.startswith(GRAM) and nb[len(GRAM):].split("::")[0] not in live:
            continue          # a grammar rule that `library` never reaches builds nothing
        if b.f.get("exp") and b.f["crate"] == "ironplc_dsl":
            continue
        for _, _, st in b.all_stmts():
            if st[0] == "=" and st[2][0] == "agg" and isinstance(st[2][1], dict) and st[2][1].get("k") == "adt" and (st[2][1].get("adt") or "").startswith("ironplc_dsl::"):
                built.add(st[2][1]["adt"])
    reads = set()
    from vlib.mir import op_place
    for b in ctx.prog.bodies.values():
        if "::test" in norm(b.id):
            continue
        if b.f.get("exp") and b.f["name"] in VALUE_IMPLS:
            continue          # derived value semantics: copying, printing and comparing a field is not using it
        if b.f.get("exp") and b.f["name"] == "recurse_fold":
            # a generated fold rebuilds its node: a field it merely copies over (#[recurse(ignore)]) is not read; one it hands to a fold method is
            for c in b.calls():
                for a in c.args:
                    p = op_place(a)
                    if p is None:
                        continue
                    for x in b.root(p)[1]:
                        if isinstance(x, list) and x[0] == "f" and (x[3] or "").startswith("ironplc_dsl::"):
                            reads.add((x[3], x[4], x[2]))
            continue
        for _, k, p in b.place_uses():
            if k == "write":
                continue
            for x in b.root(p)[1]:
                if isinstance(x, list) and x[0] == "f" and (x[3] or "").startswith("ironplc_dsl::"):
                    reads.add((x[3], x[4], x[2]))
    # syntax nodes only: types that can occur in (or on the way into) a Library, plus the parser's intermediate nodes
    from vlib.traversal import Traversal
    cont = Traversal(ctx, "visit").containment()
    syntax, st = set(), ["ironplc_dsl::common::Library"] + [a for a in ctx.facts.adts if a.startswith("ironplc_dsl::common::") or a.startswith("ironplc_dsl::textual::")
                                                           or a.startswith("ironplc_dsl::sfc::") or a.startswith("ironplc_dsl::configuration::") or a.startswith("ironplc_dsl::time::")]
    while st:
        n = st.pop()
        if n not in syntax:
            syntax.add(n)
            st += list(cont.get(n, ()))
    built &= syntax
    for aid, a in sorted(ctx.facts.adts.items()):
        if a["crate"] != "ironplc_dsl" or a["kind"] != "struct" or aid not in built:
            continue
        for v in a["variants"]:
            for fl in v["fields"]:
                if SPAN in fl["ty"] or fl["name"].startswith("__"):
                    continue
                inst = "%s.%s" % (aid.split("::")[-1], fl["name"])
                where = "%s:%d" % (a["file"], a["line"])
                if (aid, v["name"], fl["name"]) in reads:
                    r.ok(inst, where)
                else:
                    r.finding(inst + "|never-read", where, "the parser fills %s but nothing ever reads it (beyond clone/debug/equality): what the source says there has no effect anywhere" % inst)
