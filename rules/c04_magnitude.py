"""R-C04-magnitude: work is bounded by the size of the input, not by the magnitude of a number written in it.

`for v in lo..=hi`, `(lo..=hi).any(..)`, `.count()`, `.contains` by iteration: the number of steps is hi - lo.  When a bound is a
value read from the source (an integer literal, a subrange limit, a repeat count), a 20-byte program keeps the analyser busy for
2^63 steps.  For every call that *consumes* an integer range as an iterator in hand-written product code, the numeric backward
slice of the range's bounds must end in constants, lengths of in-memory things (len, len_utf8, count) or positions - never in a
field of a literal node of the DSL or a number parsed from text."""
import re
from vlib.mir import op_place, loc_str, norm, loc_macro
from vlib import facts as F
from vlib.numflow import slice_of

CONSUMERS = {"next", "any", "all", "for_each", "fold", "try_fold", "count", "sum", "product", "find", "position", "map", "filter", "filter_map", "rev", "step_by",
             "collect", "last", "nth", "skip", "take", "zip", "enumerate", "flat_map", "try_for_each", "into_iter", "min", "max"}
SIZE_CALLS = ("::len", "::len_utf8", "::len_utf16", "::count", "::capacity", "::line_index", "::column_number")
LITERAL_OWNERS = ("ironplc_dsl::common::Integer", "ironplc_dsl::common::SignedInteger", "ironplc_dsl::common::IntegerLiteral", "ironplc_dsl::common::Subrange",
                  "ironplc_dsl::common::Repeated", "ironplc_dsl::common::FixedPoint", "ironplc_dsl::common::BitStringLiteral", "ironplc_dsl::time::")
SKIP_MACROS = ("Bang:parser", "Derive:", "Attr:derive", "Bang:lazy_static", "Bang:phf")


def run(ctx, rep, rid="R-C04-magnitude", crates=None):
    r = rep.rule(rid, "no integer range whose bounds come from a number written in the source (a literal node of the DSL, a parsed number) is walked "
                      "element by element: work is bounded by the size of the input, not by the magnitude of its numbers", floor=0,
                 floor_what="integer ranges consumed as iterators in hand-written product code")
    n = 0
    for b in sorted(ctx.prog.bodies.values(), key=lambda x: x.id):
        if b.f["crate"] not in (crates or F.PRODUCT) or "::test" in norm(b.id) or b.f.get("exp"):
            continue
        k = 0
        for c in sorted(b.calls(), key=lambda c: (c.loc[0], c.loc[1]) if c.loc else (0, 0)):
            nm = c.u or c.callee or ""
            last = nm.split("::")[-1]
            if last not in CONSUMERS or not c.args:
                continue
            ga = re.sub(r"\s", "", c.ga or "")
            m = re.match(r"^\[(?:&(?:mut)?)?core::ops::(?:range::)?Range(?:Inclusive)?<([iu](?:8|16|32|64|128|size))>", ga)
            if not m:
                continue
            mac = loc_macro(c.loc) if c.loc else None
            if mac and any(str(mac[0]).startswith(p) or str(mac[1]).startswith(p) for p in SKIP_MACROS):
                continue
            # only the first consumer of a range matters: `next` in a loop header, or the adaptor that takes the range itself
            p = op_place(c.args[0])
            if p is None:
                continue
            rt = b.root(p)
            d = b.single_def(rt[0])
            if d and d[0] == "call" and (d[2].u or d[2].callee or "").split("::")[-1] in CONSUMERS and (d[2].u or d[2].callee or "").split("::")[-1] != "clone":
                srcname = (d[2].u or d[2].callee or "").split("::")[-1]
                if srcname != "into_iter":
                    continue
            k += 1
            n += 1
            fn = norm(b.id)
            inst = "%s|range<%s>.%s#%d" % (fn, m.group(1), last, k)
            where = loc_str(b.f, c.loc)
            sl = slice_of(ctx.prog, b, c.args[0])
            sources = set(sl.sources)
            # a range kept in a field of a helper struct of the workspace: look at what the struct is built from (two levels)
            for _ in range(2):
                more = set()
                for s in list(sources):
                    if s[0] == "field" and not s[1].startswith("ironplc_dsl::") and s[1] in ctx.facts.adts:
                        for wb in ctx.prog.bodies.values():
                            for _i, _j, st in wb.all_stmts():
                                if st[0] == "=" and st[2][0] == "agg" and isinstance(st[2][1], dict) and st[2][1].get("adt") == s[1] and s[2] in st[2][1].get("fields", []):
                                    o = st[2][2][st[2][1]["fields"].index(s[2])]
                                    more |= slice_of(ctx.prog, wb, o).sources
                if more <= sources:
                    break
                sources |= more
            bad = []
            for s in sorted(sources, key=str):
                if s[0] == "field" and any(s[1].startswith(o) for o in LITERAL_OWNERS):
                    bad.append("%s.%s" % (s[1].split("::")[-1], s[2]))
                elif s[0] == "call" and any(x in s[1] for x in ("::parse", "from_str", "try_into", "try_from", "from_str_radix")) and not any(s[1].endswith(z) for z in SIZE_CALLS):
                    bad.append(s[1].split("::")[-1] + "()")
            if bad:
                r.finding(inst + "|bounded-by-literal", where, "this range is walked element by element and its bounds come from %s: the number of steps is the magnitude of a number in the source, "
                          "not the size of the source" % ", ".join(sorted(set(bad))))
            else:
                r.ok(inst, where, "bounds: " + ", ".join(sorted({s[0] + ":" + str(s[1]).split("::")[-1] for s in sources}))[:100])
    r.note("%d integer ranges consumed as iterators" % n)


def run_errrun(ctx, rep, rid="R-C04-errrun"):
    """The generated lexer reports text that is no token one piece at a time (logos gives one error per character it cannot place).  A
    problem is shown with its whole source line, so one problem per piece costs (pieces x line length): a line of 8000 stray characters
    took 44 s to report.  In lexer::tokenize the arm that handles a lexer error therefore pushes nothing to the list of problems on its
    way back to the loop head - the pieces are gathered and reported as one run when the next token (or the end) comes."""
    from vlib.mir import switch_info
    from vlib.inline import inlined
    r = rep.rule(rid, "lexer::tokenize reports a run of invalid text once: the arm for a lexer error adds no problem on its way round the loop (one problem per "
                      "invalid character makes output and time quadratic)", floor=1, floor_what="lexer error arms")
    lb = ctx.prog.get("ironplc_parser::lexer::tokenize")
    if not lb:
        rep.error(rid, "lexer::tokenize not found")
        return
    b = inlined(ctx.prog, lb[0])
    where = "%s:%d" % (b.f["file"], b.f["line"])
    heads = [c for c in b.calls() if (c.u or c.callee or "").endswith("Iterator::next") and "Lexer" in (c.ga or "") + (c.callee or "")]
    if not heads:
        heads = [c for c in b.calls() if (c.u or c.callee or "").split("::")[-1] == "next"]
    n = 0
    for i in sorted(b.reachable(0)):
        si = switch_info(b, i)
        if not si or si["kind"] != "disc" or si.get("adt") != "core::result::Result":
            continue
        for succ, labs in si["edges"].items():
            if labs != ["Err"]:
                continue
            n += 1
            # what runs for an error: later tests of the same value (`matches!(token, .. | Err(_))` before the `match token`) take their Err
            # edge too - the other edges are not ways an error can go
            def subject_key(si_):
                sj = si_["subject"]
                if sj[0] == "place":
                    return ("p", sj[1][0], repr([x for x in sj[1][1] if x != "*"]))
                if sj[0] == "call":
                    return ("c", sj[1].bb, repr([x for x in sj[2] if x != "*"]))
                return None
            key0 = subject_key(si)
            avoid_h = {h.bb for h in heads}
            region, st_ = set(), [succ]
            while st_:
                x = st_.pop()
                if x in region or x in avoid_h:
                    continue
                region.add(x)
                sx = switch_info(b, x)
                if sx and sx["kind"] == "disc" and sx.get("adt") == "core::result::Result" and key0 is not None and subject_key(sx) == key0:
                    st_.extend(s2 for s2, l2 in sx["edges"].items() if l2 == ["Err"])
                else:
                    st_.extend(b.succ(x))
            pushes = []
            for c in b.calls():
                if c.bb in region and (c.callee or "").endswith("Vec::push") and c.args:
                    p = op_place(c.args[0])
                    ty = b.local_ty(b.root(p)[0]) if p is not None else ""
                    if "diagnostic::Diagnostic" in (ty or "") or "Diagnostic" in (c.ga or ""):
                        pushes.append(c)
            inst = "lexer::tokenize|error arm#%d" % n
            if pushes:
                r.finding(inst + "|one problem per lexer error", loc_str(b.f, pushes[0].loc), "every lexer error adds a problem of its own: a run of N invalid characters gives N problems, each shown with the whole line")
            else:
                r.ok(inst, where, "gathers the run; reported when the next token or the end comes")
    if not n:
        rep.error(rid, "no match on the lexer's Result in lexer::tokenize")
