"""R-C08-trivia: between any two consecutive IEC tokens of a production, trivia (`_`) is accepted.

Oracle: IEC 61131-3 §2.1.4 — white space may be inserted anywhere "except within keywords, literals, enumerated values,
identifiers, directly represented variables, or delimiter combinations".  For every sequence of every grammar rule
reachable from `library`, every pair (A, B) of input-consuming elements that can be directly adjacent (zero-width and
nullable elements in between skipped; repetition bodies paired with themselves and with their separators) must have a
trivia element between them, or A must always end with trivia, or B must always start with it.
Pairs inside rules that spell ONE lexical token of §2.1.4 are exempt (frozen table below, one reason each)."""

import re

PARSER_FILE = "parser/src/parser.rs"
TRIVIA = {"_", "whitespace", "comment"}

LEXICAL = "spells one lexical token of IEC 61131-3 2.1.4 (no white space inside literals)"
LEXICAL_RULES = {
    "integer_literal": LEXICAL + ": typed integer `INT#5`",
    "signed_integer__positive": LEXICAL + ": `+5`",
    "signed_integer__negative": LEXICAL + ": `-5`",
    "real_literal": LEXICAL + ": `REAL#-1.5`",
    "exponent": LEXICAL + ": exponent of a real literal",
    "bit_string_literal": LEXICAL + ": `WORD#16#FF`",
    "boolean_literal": LEXICAL + ": `BOOL#TRUE`",
    "single_byte_character_string": LEXICAL + ": `STRING#'a'`",
    "double_byte_character_string": LEXICAL + ": `WSTRING#\"a\"`",
    "duration": LEXICAL + ": `T#-5s`",
    "interval": LEXICAL, "days": LEXICAL + ": `1d2h`", "hours": LEXICAL, "minutes": LEXICAL, "seconds": LEXICAL, "milliseconds": LEXICAL,
    "fixed_point": LEXICAL,
    "time_of_day": LEXICAL + ": `TOD#12:30:15`", "daytime": LEXICAL, "day_hour": LEXICAL, "day_minute": LEXICAL, "day_second": LEXICAL,
    "date": LEXICAL + ": `D#2020-01-31`", "date_literal": LEXICAL, "year": LEXICAL, "month": LEXICAL, "day": LEXICAL,
    "date_and_time": LEXICAL + ": `DT#2020-01-31-12:30:15`",
    "enumerated_value": "enumerated value `TYPE#VALUE`: 2.1.4 forbids white space inside enumerated values",
    "direct_variable": "directly represented variable: a single token",
}
# pairs that cannot occur although the shapes are adjacent (named, with reason)
INFEASIBLE = {
    ("statement_list", "statements_or_empty", "statements_or_empty"):
        "PEG's greedy `**` inside semisep consumes every `;`-terminated statement: one statements_or_empty can never be directly followed by another",
}


class Trivia:
    def __init__(self, g):
        self.g = g
        self.nullable = {}
        self.leads = {}
        self.trails = {}
        self.fix()

    # ---- element classification --------------------------------------------------------------
    def zero_width(self, e):
        return e.look is not None or e.prim.kind in ("position", "empty")

    def is_trivia(self, e):
        return e.prim.kind == "call" and e.prim.name in TRIVIA and not e.look

    def prim_nullable(self, p, env):
        if p.kind in ("position", "empty"):
            return True
        if p.kind == "call":
            if p.name in env:
                return False      # opaque template parameter: consumes input
            if p.name in TRIVIA:
                return True
            return self.nullable.get(p.name, False)
        if p.kind == "group":
            return any(self.seq_nullable(s, env) for s in p.expr.alts)
        if p.kind == "prec":
            return False
        return False

    def elem_nullable(self, e, env):
        if e.look is not None:
            return True
        if e.rep in ("?", "*", "**"):
            return True
        return self.prim_nullable(e.prim, env)

    def seq_nullable(self, s, env):
        return all(self.elem_nullable(e, env) for e in s.elems)

    def prim_leads(self, p, env):
        if p.kind == "call":
            if p.name in TRIVIA:
                return True
            if p.name in env:
                return False
            return self.leads.get(p.name, False)
        if p.kind == "group":
            return all(self.seq_leads(s, env) for s in p.expr.alts)
        return False

    def prim_trails(self, p, env):
        if p.kind == "call":
            if p.name in TRIVIA:
                return True
            if p.name in env:
                return False
            return self.trails.get(p.name, False)
        if p.kind == "group":
            return all(self.seq_trails(s, env) for s in p.expr.alts)
        return False

    def elem_leads(self, e, env):
        return self.prim_leads(e.prim, env)

    def elem_trails(self, e, env):
        if e.rep in ("**", "++") and e.sep is not None:
            return self.prim_trails(e.prim, env)
        return self.prim_trails(e.prim, env)

    def seq_leads(self, s, env):
        """every non-empty match of the sequence starts by accepting trivia"""
        for e in s.elems:
            if self.zero_width(e):
                continue
            if self.is_trivia(e):
                return True
            if not self.elem_leads(e, env):
                return False
            if not self.elem_nullable(e, env):
                return True
        return True

    def seq_trails(self, s, env):
        for e in reversed(s.elems):
            if self.zero_width(e):
                continue
            if self.is_trivia(e):
                return True
            if not self.elem_trails(e, env):
                return False
            if not self.elem_nullable(e, env):
                return True
        return True

    def fix(self):
        g = self.g
        for n in g.rules:
            self.nullable[n] = False
            self.leads[n] = True
            self.trails[n] = True
        changed = True
        while changed:
            changed = False
            for n, r in g.rules.items():
                env = self.env_of(r)
                nu = any(self.seq_nullable(s, env) for s in r.expr.alts)
                le = all(self.seq_leads(s, env) for s in r.expr.alts) and not all(self.seq_nullable(s, env) for s in r.expr.alts)
                tr = all(self.seq_trails(s, env) for s in r.expr.alts) and not all(self.seq_nullable(s, env) for s in r.expr.alts)
                if n in TRIVIA:
                    le = tr = True
                if (nu, le, tr) != (self.nullable[n], self.leads[n], self.trails[n]):
                    self.nullable[n], self.leads[n], self.trails[n] = nu, le, tr
                    changed = True

    @staticmethod
    def env_of(rule):
        """names of template parameters of the form `x: rule<T>`"""
        names = set()
        toks = rule.params
        for i, t in enumerate(toks):
            if t.k == "id" and i + 2 < len(toks) and toks[i + 1].v == ":" and toks[i + 2].v == "rule":
                names.add(t.v)
        return names

    # ---- pair enumeration -----------------------------------------------------------------------
    def describe(self, e):
        p = e.prim
        if p.kind == "call":
            t = self.g.terminal(p)
            if t:
                return "%s(%s)" % (t[0], t[1])
            return p.name
        if p.kind == "pattern":
            return "[token]"
        if p.kind == "at":
            return "@"
        if p.kind == "group":
            return "(...)"
        return p.kind

    def pairs_in_seq(self, s, env, out, rule):
        els = s.elems
        for j, B in enumerate(els):
            if self.zero_width(B) or self.is_trivia(B):
                continue
            k = j - 1
            while k >= 0:
                K = els[k]
                if self.zero_width(K):
                    k -= 1
                    continue
                if self.is_trivia(K):
                    break
                ok = self.elem_trails(K, env) or self.elem_leads(B, env)
                out.append((rule, K, B, ok))
                if self.elem_nullable(K, env):
                    k -= 1
                    continue
                break
        # repetitions
        for e in els:
            if e.look is not None:
                continue
            if e.rep in ("*", "+"):
                ok = self.prim_trails(e.prim, env) or self.prim_leads(e.prim, env) or (e.prim.kind == "call" and e.prim.name in TRIVIA)
                if not (e.prim.kind == "call" and e.prim.name in TRIVIA):
                    out.append((rule, e, e, ok))
            if e.rep in ("**", "++") and e.sep is not None:
                sep = e.sep
                ok1 = self.prim_trails(e.prim, env) or self.prim_leads(sep, env)
                ok2 = self.prim_trails(sep, env) or self.prim_leads(e.prim, env)
                fake = type(e)(None, None, sep, None, None, e.line, e.col)
                out.append((rule, e, fake, ok1))
                out.append((rule, fake, e, ok2))
        # recurse
        for e in els:
            if e.look is not None:
                continue
            for p in (e.prim, e.sep):
                if p is None:
                    continue
                if p.kind == "group":
                    for sq in p.expr.alts:
                        self.pairs_in_seq(sq, env, out, rule)
                elif p.kind == "call":
                    for a in p.args:
                        if a[0] == "rule":
                            for sq in a[1].alts:
                                self.pairs_in_seq(sq, env, out, rule)
                elif p.kind == "prec":
                    for lvl in p.levels:
                        for sq in lvl:
                            self.pairs_in_seq(sq, env, out, rule)

    def reachable(self, start="library"):
        seen = set()
        st = [start]
        while st:
            n = st.pop()
            if n in seen or n not in self.g.rules:
                continue
            seen.add(n)

            def f(e, seq, c):
                for p in (e.prim, e.sep):
                    if p is not None and p.kind == "call":
                        st.append(p.name)
            self.g.walk_elems(self.g.rules[n].expr, f)
        return seen


def run(ctx, rep, rid="R-C08-trivia"):
    g = ctx.peg
    r = rep.rule(rid, "between any two consecutive IEC tokens of a production white space/comments are accepted: every adjacent pair of "
                                 "input-consuming grammar elements is separated by `_`, or the first always ends / the second always starts with it "
                                 "(pairs inside the rules that spell one lexical token are exempt)", floor=100, floor_what="adjacent element pairs")
    t = Trivia(g)
    # `_` itself must be (whitespace / comment)* and nothing else may consume trivia tokens
    und = g.rules.get("_")
    ok_us = False
    if und and len(und.expr.alts) == 1 and len(und.expr.alts[0].elems) == 1:
        e = und.expr.alts[0].elems[0]
        if e.rep == "*" and e.prim.kind == "group":
            names = sorted(x.prim.name for a in e.prim.expr.alts for x in a.elems if x.prim.kind == "call")
            ok_us = names == ["comment", "whitespace"]
    if ok_us:
        r.ok("rule _|(whitespace / comment)*", "%s:%d" % (PARSER_FILE, und.line))
    else:
        r.finding("rule _|shape", PARSER_FILE, "the trivia rule is not `(whitespace() / comment())*`")
    reach = t.reachable("library")
    pairs = []
    for n in sorted(reach):
        rl = g.rules[n]
        env = t.env_of(rl)
        for s in rl.expr.alts:
            t.pairs_in_seq(s, env, pairs, n)
    seen = {}
    n_ok = n_ex = 0
    for rule, A, B, ok in pairs:
        da, db = t.describe(A), t.describe(B)
        key = (rule, da, db)
        k = seen[key] = seen.get(key, 0) + 1
        inst = "rule %s|%s ~ %s#%d" % (rule, da, db, k)
        where = "%s:%d" % (PARSER_FILE, B.line)
        if ok:
            n_ok += 1
            r.ok(inst, where)
        elif rule in LEXICAL_RULES:
            n_ex += 1
            r.justified(inst, LEXICAL_RULES[rule], where)
        elif key in INFEASIBLE:
            r.justified(inst, "infeasible: " + INFEASIBLE[key], where)
        else:
            r.finding(inst, where, "no `_` between %s and %s: white space or a comment between these two tokens is a syntax error" % (da, db))
    r.note("%d rules reachable from library, %d adjacent pairs: %d separated, %d inside lexical-token rules" % (len(reach), len(pairs), n_ok, n_ex))


# ---------------------------------------------------------------------------------------------------------------------
def run_lookahead(ctx, rep, rid="R-C08-lookahead"):
    """A look-ahead `!(tok(A) / tok(B))` / `&tok(A)` asks "is the next *token* one of these?".  Where white space or a comment may stand
    between the element before it and that token, the look-ahead only sees the trivia unless the grammar skips it first: the element
    before a token look-ahead ends with `_` (or is `_`).  Without it `name [i]` and `name[i]` take different alternatives."""
    g = ctx.peg
    t = Trivia(g)
    r = rep.rule(rid, "every look-ahead over tokens is evaluated after the optional trivia has been skipped (the element before it is `_` or always ends with it), "
                      "so a blank or comment before the token does not change which alternative is taken", floor=1, floor_what="token look-aheads")
    reach = t.reachable("library")

    def tokens_of(prim):
        out = []
        if prim.kind == "call" and g.terminal(prim):
            out.append(t.describe(type("E", (), {"prim": prim, "label": None, "look": None, "rep": None, "sep": None})()))
        elif prim.kind == "group":
            for sq in prim.expr.alts:
                for e in sq.elems:
                    out += tokens_of(e.prim)
        return out
    seen = {}

    def visit(rule, sq, env):
        els = sq.elems
        for i, e in enumerate(els):
            if e.look is not None:
                toks = tokens_of(e.prim)
                if toks:
                    # previous input-consuming or trivia element
                    k = i - 1
                    while k >= 0 and t.zero_width(els[k]):
                        k -= 1
                    key = (rule, "%s(%s)" % (e.look, " / ".join(toks)))
                    n = seen[key] = seen.get(key, 0) + 1
                    inst = "rule %s|%s#%d" % (rule, key[1], n)
                    where = "%s:%d" % (PARSER_FILE, e.line)
                    if k < 0:
                        r.ok(inst, where, "first element of its sequence")
                    elif t.is_trivia(els[k]) or t.elem_trails(els[k], env):
                        r.ok(inst, where, "after `_`")
                    elif rule in EXEMPT_LEXICAL if "EXEMPT_LEXICAL" in globals() else False:
                        r.ok(inst, where, "inside a lexical-token rule")
                    else:
                        r.finding(inst + "|trivia-not-skipped", where, "the look-ahead tests the token directly after %s: with a blank or a comment in between it sees the trivia, "
                                  "the test gives the other answer and the parse takes a different alternative (`x [i]` vs `x[i]`)" % t.describe(els[k]))
            for p in (e.prim, e.sep):
                if p is None or e.look is not None:
                    continue
                if p.kind == "group":
                    for s2 in p.expr.alts:
                        visit(rule, s2, env)
                elif p.kind == "prec":
                    for lvl in p.levels:
                        for s2 in lvl:
                            visit(rule, s2, env)
    for nme in sorted(reach):
        rl = g.rules[nme]
        env = t.env_of(rl)
        for sq in rl.expr.alts:
            visit(nme, sq, env)


def run_glue(ctx, rep, rid="R-C08-glue"):
    """The lexical-token exemption of R-C08-trivia ("`-5` is one literal, no white space inside") is only harmless where the spaced
    spelling `- 5` has no *other* parse.  In an ordered choice, if an earlier alternative can begin with token T glued to what follows
    (T is the first element of an exempt lexical rule) and a later alternative can begin with the same T followed by optional trivia,
    then `T x` and `T <blank> x` are both accepted but take different alternatives: the parsed library depends on a blank."""
    g = ctx.peg
    t = Trivia(g)
    r = rep.rule(rid, "no ordered choice has an earlier alternative that begins with a token glued to its successor (inside a lexical-token rule) and a "
                      "later alternative that begins with the same token followed by optional trivia: the spaced and the unspaced spelling must take the same alternative",
                 floor=60, floor_what="ordered choices examined")
    first_glued, first_loose = {}, {}
    for n in g.rules:
        first_glued[n] = set()
        first_loose[n] = set()

    def term(e):
        d = t.describe(e)
        return d if e.prim.kind in ("call", "pattern") and (e.prim.kind == "pattern" or g.terminal(e.prim)) else None

    def seq_sets(rule_name, s, env):
        """(glued, loose) terminals the sequence can start with"""
        gl, lo = set(), set()
        els = [e for e in s.elems]
        i = 0
        while i < len(els):
            e = els[i]
            if t.zero_width(e) or t.is_trivia(e):
                i += 1
                continue
            # next consuming element and whether trivia can come between
            j = i + 1
            trivia_between = False
            nxt = None
            while j < len(els):
                if t.is_trivia(els[j]):
                    trivia_between = True
                elif not t.zero_width(els[j]):
                    nxt = els[j]
                    break
                j += 1
            tm = term(e)
            if tm is not None:
                if nxt is not None and not trivia_between and not t.elem_leads(nxt, env) and rule_name in LEXICAL_RULES:
                    gl.add(tm)
                else:
                    lo.add(tm)
            elif e.prim.kind == "call" and e.prim.name in g.rules:
                gl |= first_glued[e.prim.name]
                lo |= first_loose[e.prim.name]
            elif e.prim.kind == "group":
                for sq in e.prim.expr.alts:
                    a, b2 = seq_sets(rule_name, sq, env)
                    gl |= a
                    lo |= b2
            elif e.prim.kind == "prec":
                for lvl in e.prim.levels:
                    for sq in lvl:
                        a, b2 = seq_sets(rule_name, sq, env)
                        gl |= a
                        lo |= b2
            if t.elem_nullable(e, env):
                i += 1
                continue
            break
        return gl, lo
    changed = True
    while changed:
        changed = False
        for n, rl in g.rules.items():
            env = t.env_of(rl)
            gl, lo = set(), set()
            for s in rl.expr.alts:
                a, b2 = seq_sets(n, s, env)
                gl |= a
                lo |= b2
            if gl - first_glued[n] or lo - first_loose[n]:
                first_glued[n] |= gl
                first_loose[n] |= lo
                changed = True
    reach = t.reachable("library")
    n_choices = 0

    def examine(rule_name, expr, env, where_line):
        nonlocal n_choices
        if len(expr.alts) > 1:
            n_choices += 1
            sets = [seq_sets(rule_name, s, env) for s in expr.alts]
            for i in range(len(sets)):
                for j in range(i + 1, len(sets)):
                    both = sets[i][0] & sets[j][1]
                    for tm in sorted(both):
                        r.finding("rule %s|alt %d glues %s, alt %d accepts it spaced" % (rule_name, i + 1, tm, j + 1), "%s:%d" % (PARSER_FILE, where_line),
                                  "`%s x` is taken by alternative %d (no white space allowed after %s there), `%s <blank> x` falls through to alternative %d: "
                                  "the same program parses to different trees depending on a blank" % (tm, i + 1, tm, tm, j + 1))
        for s in expr.alts:
            for e in s.elems:
                for pr in (e.prim, e.sep):
                    if pr is not None and pr.kind == "group":
                        examine(rule_name, pr.expr, env, e.line)
    for n in sorted(reach):
        rl = g.rules[n]
        examine(n, rl.expr, t.env_of(rl), rl.line)
    r.count_override = n_choices
    if not any(i["verdict"] == "finding" for i in r.instances):
        r.ok("grammar|no glued/spaced split", PARSER_FILE, "%d ordered choices" % n_choices)
    r.note("%d ordered choices examined; glued first tokens exist in: %s" % (n_choices, ", ".join(sorted(k for k, v in first_glued.items() if v and k in LEXICAL_RULES))[:200]))


# ---------------------------------------------------------------------------------------------------------------------
def comment_regexes(ctx):
    a = ctx.facts.astattrs.get("ironplc_parser::token::TokenType")
    out = []
    if a:
        for at in a["variants"].get("Comment", {}).get("attrs", []):
            m = re.search(r'#\[regex\(r"(.*?)"(?:,|\))', at)
            if m:
                out.append(m.group(1))
    return out


def comment_callback(ctx, r):
    """The other way to lex a block comment: the token is the opener `(*` and a callback that moves the lexer on.  The token then is exactly
    `(*` .. first `*)` if the callback (1) searches the *remainder* (the text after the opener) forward for the constant `*)`, (2) where it
    is found at position p bumps the lexer by p + 2 - the length of `*)` - and accepts, (3) where it is not found rejects.  Returns True if
    the Comment token is of this form (and reports on it), False if there is no such attribute."""
    from vlib.mir import switch_info, norm, op_place
    a = ctx.facts.astattrs.get("ironplc_parser::token::TokenType")
    name = None
    for at in (a or {}).get("variants", {}).get("Comment", {}).get("attrs", []):
        m = re.search(r'#\[token\(\s*"\(\*"\s*,\s*([A-Za-z_][A-Za-z0-9_:]*)', at)
        if m:
            name = m.group(1).split("::")[-1]
    if name is None:
        return False
    where = "parser/src/token.rs"
    bs = [b for b in ctx.prog.bodies.values() if b.f["crate"] == "ironplc_parser" and b.f["name"] == name and b.f["dk"] == "Fn"]
    inst = "TokenType::Comment|(* + callback %s" % name
    if not bs:
        r.finding(inst + "|callback-not-found", where, "the callback of the block comment token is not a function of the parser crate")
        return True
    b = bs[0]
    finds = [c for c in b.calls() if (c.callee or "").endswith("str::find") or (c.callee or "") == "core::str::find"]
    others = [c for c in b.calls() if (c.callee or "").split("::")[-1] in ("rfind", "rmatch_indices", "match_indices", "split", "rsplit", "contains")]
    if len(finds) != 1 or others:
        r.finding(inst + "|not-one-forward-search", where, "expected exactly one forward search (str::find) in the callback, found %d (and %d other searches)" % (len(finds), len(others)))
        return True
    f = finds[0]
    needle = b.const_str(f.args[1]) if len(f.args) > 1 else None
    rp = op_place(f.args[0])
    rd = b.single_def(b.root(rp)[0]) if rp is not None else None
    on_remainder = bool(rd and rd[0] == "call" and (rd[2].callee or "").endswith("Lexer::remainder"))
    if needle != "*)" or not on_remainder:
        r.finding(inst + "|wrong-search", where, "the callback searches %s for %r: a block comment ends at the first `*)` of the text after the opener" % ("the remainder" if on_remainder else "something other than lexer.remainder()", needle))
        return True
    # the match on the result
    si = switch_info(b, f.target) if f.target is not None else None
    cur, k = f.target, 0
    while si is None and cur is not None and k < 4:
        sc = b.succ(cur)
        if len(sc) != 1:
            break
        cur = sc[0]
        si = switch_info(b, cur)
        k += 1
    if not si or si["kind"] != "disc" or si.get("adt") != "core::option::Option":
        r.finding(inst + "|result-not-matched", where, "the result of the search is not matched on")
        return True
    some = [x for x, labs in si["edges"].items() if labs == ["Some"]]
    none = [x for x, labs in si["edges"].items() if labs == ["None"]]
    if len(some) != 1 or len(none) != 1:
        r.finding(inst + "|result-not-matched", where, "the match on the search result has no separate Some and None arms")
        return True

    from vlib import units

    def bools_in(region):
        vals = set()
        for x in region:
            for st in b.stmts(x):
                if st[0] != "=":
                    continue
                ops = []
                if st[2][0] == "use":
                    ops = [st[2][1]]
                elif st[2][0] == "agg":
                    ops = list(st[2][2])
                for o in ops:
                    if o and o[0] == "c" and o[1] == "bool":
                        vals.add(o[2])
        return vals
    some_region = b.reachable(some[0], avoid=(none[0],))
    none_region = b.reachable(none[0], avoid=(some[0],))
    join = some_region & none_region
    some_only, none_only = some_region - join, none_region - join
    # p + 2 on the Some side, where 2 is the constant or the length of the constant `*)`
    sums = []
    for x in sorted(some_only):
        for st in b.stmts(x):
            if st[0] == "=" and st[2][0] == "bin" and st[2][1].startswith("Add"):
                ks = []
                for o in (st[2][2], st[2][3]):
                    if o[0] == "c" and len(o) > 3 and isinstance(o[3], dict) and "int" in o[3]:
                        ks.append(int(o[3]["int"]))
                    else:
                        p_ = op_place(o)
                        d_ = b.single_def(p_[0]) if p_ is not None and not p_[1] else None
                        if d_ and d_[0] == "call" and (d_[2].callee or "").split("::")[-1] == "len" and d_[2].args and b.const_str(d_[2].args[0]) == needle:
                            ks.append(len(needle))
                if ks == [len("*)")]:
                    sums.append(st[1][0])
    bumps = [c for c in b.calls() if c.bb in some_region and (c.callee or "").endswith("Lexer::bump")]
    ok_bump = False
    if sums and bumps:
        taint = units.forward(b, set(sums))
        for c in bumps:
            p = op_place(c.args[1]) if len(c.args) > 1 else None
            if p is not None and p[0] in taint:
                ok_bump = True
    rs, rn = bools_in(some_only), bools_in(none_only)
    if not ok_bump:
        r.finding(inst + "|end-not-position-plus-2", where, "where `*)` is found at position p the lexer is not moved by p + 2: the token does not end with the first `*)`")
    elif rs != {"true"} or rn != {"false"}:
        r.finding(inst + "|wrong-verdict", where, "the callback must accept exactly when `*)` was found (Some arm returns %s, None arm returns %s)" % (sorted(rs), sorted(rn)))
    else:
        r.ok(inst, where, "`(*`, then the remainder up to and including its first `*)` (forward search for the constant, bump by position + 2); rejected when there is none")
    return True


def run_comment(ctx, rep, rid="R-C08-comment"):
    """A comment is trivia only if it ends where the reader expects it to end.  The block-comment pattern of the lexer (a constant,
    read from the token attributes) is compared, as a regular language, with the definition `(*` ... first `*)`: strings over
    {(, *, ), other} that start with `(*`, end with `*)` and contain no earlier `*)` after the opener.  A pattern that accepts
    more runs past the end of a comment (and swallows code up to the next `*)`); one that accepts less rejects valid comments."""
    from vlib import rx
    r = rep.rule(rid, "the block-comment token matches exactly `(*` .. first `*)` (regular-language equivalence of the lexer's pattern with the reference automaton)",
                 floor=1, floor_what="block comment patterns")
    pats = [p for p in comment_regexes(ctx) if p.startswith(r"\(\*")]
    if not pats:
        if comment_callback(ctx, r):
            return
        r.finding("TokenType::Comment|no-block-pattern", "parser/src/token.rs", "no `(* .. *)` pattern found on the Comment token")
        return

    def delta(q, ch):
        if q == 0:
            return 1 if ch == "(" else None
        if q == 1:
            return 2 if ch == "*" else None
        if q == 2:
            return 3 if ch == "*" else 2
        if q == 3:
            return 3 if ch == "*" else (4 if ch == ")" else 2)
        return None
    for ptn in pats:
        try:
            res, alphabet = rx.compare(ptn, delta, 0, {4}, extra_chars="(*)")
        except ValueError as e:
            r.finding("TokenType::Comment|pattern-not-analysable", "parser/src/token.rs", "cannot turn the pattern into an automaton: %s" % e)
            continue
        if res is None:
            r.ok("TokenType::Comment|%s" % ptn, "parser/src/token.rs", "equal to the reference over %s" % "".join(a if a != "\n" else "\\n" for a in alphabet))
        else:
            w, side = res
            shown = w.replace("\n", "\\n")
            if side == "regex":
                r.finding("TokenType::Comment|accepts-too-much", "parser/src/token.rs", "the pattern matches `%s`, which is not one comment (a `*)` occurs before its end): "
                          "with longest match the comment runs on to a later `*)` and the text in between is silently dropped" % shown)
            else:
                r.finding("TokenType::Comment|rejects-comment", "parser/src/token.rs", "the pattern does not match the comment `%s`" % shown)
