"""C02 — "every used enumeration value declared", and the classification of ambiguous names (DESIGN.md §R5).

Three rules over the resolved program:
  R-C02-enumuses   every place of the DSL where an enumeration value is *used* is looked at by the undefined-value rule
  R-C02-enumeq     the rule compares the value of an enumerated value, never the whole node (whose derived equality includes the
                   optional `TYPE#` qualifier, which defined values do not carry)
  R-C02-latebound  the transform that turns an ambiguous name into a variable or an enumeration value consults the declarations
"""
import re
from vlib.mir import norm, loc_str, op_place
from vlib.traversal import snake

EV = re.compile(r"common::EnumeratedValue(?![A-Za-z])")

# (owner ADT, field or variant) -> (class, reason).  classes: def (the values an enumeration defines), exact (a use whose node names
# the enumeration: must be compared with that enumeration's values), any (a use whose enumeration is not known without type
# inference: must at least be a value of some enumeration), ambiguous (not necessarily an enumeration value)
ENUM_FIELDS = {
    ("EnumeratedSpecificationValues", "values"): ("def", "the values of a declared enumeration"),
    ("EnumeratedValuesInitializer", "values"): ("def", "the values of an enumeration declared inline with a variable"),
    ("EnumeratedInitialValueAssignment", "initial_value"): ("exact", "initial value of a variable of a named enumeration type"),
    ("EnumeratedSpecificationInit", "default"): ("exact", "default value of an enumeration type declaration"),
    ("EnumeratedValuesInitializer", "initial_value"): ("exact", "initial value of a variable with an inline enumeration"),
    ("ArrayInitialElementKind", "EnumValue"): ("any", "element of an array initializer"),
    ("StructInitialValueAssignmentKind", "EnumeratedValue"): ("any", "element of a structure initializer"),
    ("CaseSelectionKind", "EnumeratedValue"): ("any", "selector of a CASE alternative"),
    ("ExprKind", "EnumeratedValue"): ("any", "operand of an expression"),
    ("ProgramConnectionSourceKind", "EnumeratedValue"): ("ambiguous", "the grammar tries enumerated_value before global_var_reference, so the "
                                                         "name of a global variable lands here too"),
}


def _self_of(b):
    return re.sub(r"<.*", "", (b.f.get("impl") or {}).get("self") or "")


def _mentions_problem(ctx, b, variant, depth=2, seen=None):
    seen = seen if seen is not None else set()
    if b.id in seen:
        return False
    seen.add(b.id)
    for i, j, s in b.all_stmts():
        if s[0] == "=" and s[2][0] == "agg" and s[2][1].get("adt") == "ironplc_problems::Problem" and s[2][1].get("variant") == variant:
            return True
    for c in b.calls():
        for a in c.args:
            k = b.const_of(a)
            if k is not None and len(k) > 3 and isinstance(k[3], dict) and k[3].get("variant") == variant:
                return True
        if depth and c.callee and "ironplc_analyzer" in c.callee:
            for b2 in ctx.prog.get(c.callee) or []:
                if _mentions_problem(ctx, b2, variant, depth - 1, seen):
                    return True
    return False


def rule_visitor(ctx, rep, rid):
    """the visitor of rule_use_declared_enumerated_value that reports P0014"""
    vis = {}
    for b in ctx.prog.bodies.values():
        if b.f["crate"] == "ironplc_analyzer" and "rule_use_declared_enumerated_value" in b.f["file"] and "::test" not in norm(b.id) \
                and (b.f.get("impl") or {}).get("trait_def") == "ironplc_dsl::visitor::Visitor" and b.f["name"].startswith("visit_"):
            vis.setdefault(_self_of(b), {})[b.f["name"]] = b
    out = {}
    for s, ov in vis.items():
        if any(_mentions_problem(ctx, b, "EnumValueNotDefined") for b in ov.values()):
            out.update(ov)
    if not out:
        rep.error(rid, "no visitor of rule_use_declared_enumerated_value reports EnumValueNotDefined")
    return out


def _reads_field(ob, aid, name):
    for _, k, pl in ob.place_uses():
        rt = ob.root(pl)
        if any(isinstance(x, list) and x[0] == "f" and x[3] == aid and x[2] == name for x in rt[1]):
            return True
    return False


def _looks_up(ctx, b, depth=2):
    """does the function consult a table (contains / contains_key / get / any over a list)?"""
    for c in b.calls():
        n = (c.callee or "")
        if n.split("::")[-1] in ("contains", "contains_key", "get", "any") and ("Hash" in n or "slice" in n or "Iterator" in n or "Vec" in n or "BTree" in n):
            return True
        if depth and "ironplc_analyzer" in n:
            for b2 in ctx.prog.get(n) or []:
                if _looks_up(ctx, b2, depth - 1):
                    return True
    return False


def run_uses(ctx, rep, rid="R-C02-enumuses"):
    r = rep.rule(rid, "every place of the DSL where an enumeration value is used is looked at by the undefined-value rule (P0014): a use whose node names "
                      "its enumeration is read by an override for that node; every other use is reached by a visit_enumerated_value override that "
                      "consults the table of all defined values", floor=10, floor_what="EnumeratedValue fields of the DSL")
    ov = rule_visitor(ctx, rep, rid)
    generic = ov.get("visit_enumerated_value")
    generic_ok = generic is not None and _looks_up(ctx, generic)
    for aid, a in sorted(ctx.facts.adts.items()):
        if not aid.startswith("ironplc_dsl::"):
            continue
        short = aid.split("::")[-1]
        for v in a["variants"]:
            for fl in v["fields"]:
                if not EV.search(fl["ty"]):
                    continue
                enum_like = fl["name"].isdigit()
                key = (short, v["name"] if enum_like else fl["name"])
                inst = "%s.%s" % key
                where = "%s:%d" % (a["file"], a["line"])
                row = ENUM_FIELDS.get(key)
                if row is None:
                    r.finding(inst + "|unclassified", where, "a new place for an enumeration value in the DSL: definition or use? (add it to the table with a reason)")
                    continue
                cls, why = row
                if cls == "def":
                    r.justified(inst, "defines values: " + why, where)
                elif cls == "ambiguous":
                    r.justified(inst, "not necessarily an enumeration value: " + why, where)
                elif cls == "exact":
                    rd = [b for b in ov.values() if _reads_field(b, aid, fl["name"])]
                    if rd:
                        r.ok(inst, "%s:%d" % (rd[0].f["file"], rd[0].f["line"]), why + ": compared with its enumeration in " + rd[0].f["name"])
                    else:
                        r.finding(inst + "|use-not-checked", where, "%s (%s) names its enumeration, but no override of the rule reads it: a value that the "
                                  "enumeration does not define is accepted" % (inst, why))
                else:
                    own = ov.get("visit_" + snake(short))
                    blocked = own is not None and not any((c.callee or c.u or "").endswith("recurse_visit") for c in own.calls()) and not _reads_field(own, aid, fl["name"])
                    if generic_ok and not blocked:
                        r.ok(inst, "%s:%d" % (generic.f["file"], generic.f["line"]), why + ": reached by visit_enumerated_value, which consults the table of all defined values")
                    else:
                        r.finding(inst + "|use-not-checked", where, "%s (%s) is a use of an enumeration value that the rule never looks at%s: an undefined value there is accepted"
                                  % (inst, why, " (its override of visit_%s neither recurses nor reads it)" % snake(short) if blocked else ""))


def run_eq(ctx, rep, rid="R-C02-enumeq"):
    r = rep.rule(rid, "the analyzer never compares whole EnumeratedValue nodes (derived equality includes the optional TYPE# qualifier, which the defined values "
                      "do not carry: `LEVEL#INFO` would never equal `INFO`); it compares their `value` identifiers", floor=1, floor_what="analyzer functions that handle enumerated values")
    n = 0
    for b in sorted(ctx.prog.bodies.values(), key=lambda x: x.id):
        if b.f["crate"] != "ironplc_analyzer" or "::test" in norm(b.id) or b.f.get("exp"):
            continue
        touches = any(EV.search(t[0] if isinstance(t, list) else str(t)) for t in b.f["locals"])
        if not touches:
            continue
        n += 1
        k = 0
        for c in sorted(b.calls(), key=lambda c: (c.loc[0], c.loc[1])):
            nm = c.callee or c.u or ""
            whole = (nm.endswith(("::contains", "PartialEq::eq", "PartialEq::ne")) or "PartialEq" in nm) and EV.search(c.ga or "") and not re.search(r"core::Id\b", (c.ga or "").split(",")[0])
            if whole:
                k += 1
                r.finding("%s|%s#%d" % (norm(b.id), nm.split("::")[-1], k), loc_str(b.f, c.loc),
                          "compares whole enumerated values (%s over %s): a value written with its type qualifier never matches the unqualified defined value" % (nm.split("::")[-1], c.ga))
        if not k:
            r.ok(norm(b.id), "%s:%d" % (b.f["file"], b.f["line"]))
    r.note("%d analyzer functions with EnumeratedValue locals" % n)


def run_latebound(ctx, rep, rid="R-C02-latebound"):
    r = rep.rule(rid, "the transform that classifies an ambiguous name (ExprKind::LateBound) as a variable or an enumeration value consults the declarations: "
                      "every construction from LateBound.name is dominated by a test of that name against a table", floor=2, floor_what="constructions from LateBound.name")
    bs = [b for b in ctx.prog.bodies.values() if b.f["crate"] == "ironplc_analyzer" and b.f["name"] == "fold_expr_kind" and "::test" not in norm(b.id)]
    if not bs:
        rep.error(rid, "fold_expr_kind not found in the analyzer")
        return
    for b in bs:
        dom = b.dominators()
        # blocks that test the name: a `&…LateBound.name` is taken in the block and passed to a call that consults a table
        tests = set()
        for c in b.calls():
            has_ref = False
            for a in c.args:
                p = op_place(a)
                rt = b.root(p) if p is not None else None
                if rt and any(isinstance(x, list) and x[0] == "f" and x[2] == "name" and x[3].endswith("::LateBound") for x in rt[1]):
                    has_ref = True
            if not has_ref or not c.callee:
                continue
            if any(_looks_up(ctx, b2) for b2 in (ctx.prog.get(c.callee) or [])):
                tests.add(c.bb)
        seen = {}
        for i, bb in enumerate(b.bbs):
            moves = [s for s in bb["s"] if s[0] == "=" and s[2][0] == "use" and s[2][1][0] == "mv" and
                     any(isinstance(x, list) and x[0] == "f" and x[2] == "name" and x[3].endswith("::LateBound") for x in s[2][1][1][1])]
            if not moves:
                continue
            kinds = [s[2][1]["variant"] for s in bb["s"] if s[0] == "=" and s[2][0] == "agg" and s[2][1].get("adt", "").endswith("textual::ExprKind")]
            kind = kinds[0] if kinds else "?"
            tested = bool(tests & dom.get(i, set()))
            st = seen.setdefault(kind, {"n": 0, "untested": [], "loc": moves[0][3]})
            st["n"] += 1
            if not tested:
                st["untested"].append(moves[0][3])
        for kind, st in sorted(seen.items()):
            inst = "LateBound->%s" % kind
            if st["untested"]:
                r.finding(inst + "|declarations-not-consulted", loc_str(b.f, st["untested"][0]),
                          "%d of %d constructions of ExprKind::%s from an ambiguous name are made without testing the name against the declared variables / enumeration values: "
                          "%s" % (len(st["untested"]), st["n"], kind,
                                  "an enumeration value outside an assignment (IF c = Green, an argument) is taken for a variable and rejected with P0015" if kind == "Variable"
                                  else "a variable assigned to a variable of an enumeration type is taken for an enumeration value"))
            else:
                r.ok(inst, loc_str(b.f, st["loc"]), "%d construction(s), each dominated by a test of the name" % st["n"])


def run_exact(ctx, rep, rid="R-C02-enumexact"):
    """A use that names its enumeration is judged against that enumeration alone.  Every function of the rule that receives the values of
    one enumeration (a `&[EnumeratedValue]` / `&Vec<EnumeratedValue>` parameter) and can report P0014 decides by iterating over that
    parameter, and does not consult a library-wide table (a field of the visitor that holds the values of *all* enumerations) -
    otherwise an unrelated enumeration that happens to define the same name makes the error disappear."""
    r = rep.rule(rid, "a value checked against its own enumeration is looked up in that enumeration's values (the parameter), not in the table of all values",
                 floor=1, floor_what="functions that check a value against a given list")
    n = 0
    for b in sorted(ctx.prog.bodies.values(), key=lambda x: x.id):
        if b.f["crate"] != "ironplc_analyzer" or "rule_use_declared_enumerated_value" not in b.f["file"] or "::test" in norm(b.id) or b.f["dk"] == "Closure":
            continue
        params = [l for l in range(1, b.f["argc"] + 1) if re.search(r"&(\[|alloc::vec::Vec<)ironplc_dsl::common::EnumeratedValue", re.sub(r"'\w+ ", "", b.f["locals"][l][0]))]
        if not params or not _mentions_problem(ctx, b, "EnumValueNotDefined", depth=0):
            continue
        n += 1
        group = [b] + [cb for cb in ctx.prog.bodies.values() if cb.f["dk"] == "Closure" and cb.f.get("parent") == b.id]
        iterates = any((c.callee or "").split("::")[-1] in ("iter", "contains", "into_iter") and c.args and op_place(c.args[0]) is not None and g.root(op_place(c.args[0]))[0] in params
                       for g in [b] for c in g.calls())
        wide = set()
        for g in group:
            for c in g.calls():
                if (c.callee or "").split("::")[-1] in ("contains", "get", "contains_key") and c.args:
                    rp = op_place(c.args[0])
                    rt = g.root(rp) if rp is not None else None
                    fs = [x[2] for x in (rt[1] if rt else []) if isinstance(x, list) and x[0] == "f"]
                    if rt and rt[0] == 1 and fs and re.search(r"Hash(Set|Map)", c.callee or ""):
                        wide.add(fs[-1])
        fn = norm(b.id).split("::")[-1]
        where = "%s:%d" % (b.f["file"], b.f["line"])
        if wide:
            r.finding("%s|looks up %s" % (fn, ",".join(sorted(wide))), where, "%s() receives the values of one enumeration but decides with the visitor's table `%s` (all enumerations of the library): "
                      "an undefined value is accepted as soon as any other enumeration defines that name" % (fn, ",".join(sorted(wide))))
        elif not iterates:
            r.finding("%s|ignores its list" % fn, where, "%s() receives the values of one enumeration and never iterates over them" % fn)
        else:
            r.ok(fn, where, "decides by iterating over the given values")


def run(ctx, rep):
    run_exact(ctx, rep)
    run_uses(ctx, rep)
    run_eq(ctx, rep)
    run_latebound(ctx, rep)
