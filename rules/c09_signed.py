"""R-C09-signedbound: a range test on a sign-and-magnitude value must know the sign.

The DSL keeps a signed integer literal as `SignedInteger { value: Integer { value: u128 }, is_neg }`.  The two's-complement types are not
symmetric: the magnitude of the most negative value is the positive maximum plus one (`SINT#-128`, `INT#-32768`).  A test of the *magnitude*
against the *positive maximum of a signed type* (2^7-1, 2^15-1, 2^31-1, 2^63-1) that is applied to negative values too rejects - or, written
the other way round with maximum + 1, accepts - one value per type wrongly.  That is a one-sided comparison in the sense of the
contradiction rules: the code handles `<= MAX` and forgets that the other sign has another bound.

Per comparison (`<`, `<=`, `>`, `>=`) in the non-test code of the parser and dsl crates, one operand of which is (a copy of) a field below
`SignedInteger.value`: the constants the other operand can hold are collected through copies, casts and the tuples / variables a `match`
assigns them to.  If one of them is a signed maximum (or a signed maximum plus one) and the comparison is not on an edge on which `is_neg`
of the same value has been decided, it is reported.

Zero instances on today's tree (type-prefixed literals are not range-checked at all, which is the "or rejected" clause not being
exercised, not a wrong reading); positive example: seeded/C09-O."""
from vlib.mir import norm, loc_str, op_place, switch_info
from rules import panics

SI = "ironplc_dsl::common::SignedInteger"
SIGNED_MAX = {2 ** 7 - 1: "SINT/i8", 2 ** 15 - 1: "INT/i16", 2 ** 31 - 1: "DINT/i32", 2 ** 63 - 1: "LINT/i64"}


def possible_consts(b, op, depth=6, seen=None):
    """the set of integer constants an operand can hold (through copies, casts, tuple fields assigned in several arms), or None if some
    definition is not a constant"""
    seen = seen if seen is not None else set()
    v = panics._int_const(b, op)
    if v is not None:
        return {v}
    p = op_place(op)
    if p is None or depth == 0:
        return None
    key = (p[0], repr(p[1]))
    if key in seen:
        return set()
    seen.add(key)
    fields = [x for x in p[1] if x != "*"]
    defs = b.defs.get(p[0], [])
    if not defs or p[0] <= b.f["argc"]:
        return None
    out = set()
    for d in defs:
        if d[0] != "stmt":
            return None
        rv = d[3]
        if not fields:
            if rv[0] == "use":
                s = possible_consts(b, rv[1], depth - 1, seen)
            elif rv[0] == "cast":
                s = possible_consts(b, rv[2], depth - 1, seen)
            else:
                return None
        else:
            f0 = fields[0]
            if rv[0] == "agg" and isinstance(rv[1], dict) and rv[1].get("k") == "tuple" and isinstance(f0, list) and f0[0] == "f" and len(fields) == 1 and int(f0[1]) < len(rv[2]):
                s = possible_consts(b, rv[2][int(f0[1])], depth - 1, seen)
            elif rv[0] == "use" and rv[1][0] in ("cp", "mv"):
                s = possible_consts(b, [rv[1][0], [rv[1][1][0], list(rv[1][1][1]) + fields]], depth - 1, seen)
            else:
                return None
        if s is None:
            return None
        out |= s
    return out


def _magnitude_root(b, op):
    """(root local, prefix projection) when the operand is a field below SignedInteger.value, else None"""
    p = op_place(op)
    if p is None:
        return None
    rt = b.root(p)
    fs = [x for x in rt[1] if isinstance(x, list) and x[0] == "f"]
    for i, x in enumerate(fs):
        if x[3] == SI and x[2] == "value":
            pre = rt[1][:rt[1].index(x)]
            return (rt[0], [y for y in pre if y != "*"])
    return None


def _sign_decided(b, bb, root):
    """is `is_neg` of the value at `root` decided on the way to block bb?"""
    dom = b.dominators()
    for d_ in dom.get(bb, set()):
        si = switch_info(b, d_)
        if not si or si["kind"] != "bool" or si["subject"][0] != "place":
            continue
        rt = si["subject"][1]
        fs = [x for x in rt[1] if isinstance(x, list) and x[0] == "f"]
        if not fs or fs[-1][3] != SI or fs[-1][2] != "is_neg":
            continue
        pre = [y for y in rt[1][:rt[1].index(fs[-1])] if y != "*"]
        if (rt[0], pre) != root:
            continue
        for succ, labs in si["edges"].items():
            if succ == bb or succ in dom.get(bb, set()):
                others = [s for s in si["edges"] if s != succ]
                if not any(bb in b.reachable(o, avoid={d_}) for o in others):
                    return True
    return False


def run(ctx, rep, rid="R-C09-signedbound"):
    r = rep.rule(rid, "no range test compares the magnitude of a signed integer literal with the positive maximum of a two's-complement type (or that maximum plus one) "
                      "without having decided the sign: the most negative value of the type has magnitude maximum + 1", floor=0, floor_what="comparisons of a literal's magnitude")
    n = 0
    k = 0
    for b in sorted(ctx.prog.bodies.values(), key=lambda x: x.id):
        if b.f["crate"] not in ("ironplc_parser", "ironplc_dsl") or "::test" in norm(b.id) or b.f.get("exp"):
            continue
        for i, j, s in b.all_stmts():
            if not (s[0] == "=" and s[2][0] == "bin" and s[2][1] in ("Gt", "Ge", "Lt", "Le")):
                continue
            for mag, other in ((s[2][2], s[2][3]), (s[2][3], s[2][2])):
                root = _magnitude_root(b, mag)
                if root is None:
                    continue
                n += 1
                cs = possible_consts(b, other)
                fn = norm(b.id).split("::")[-1]
                hit = sorted(c for c in (cs or ()) if c in SIGNED_MAX or c - 1 in SIGNED_MAX)
                if not hit:
                    r.ok("%s|magnitude %s %s#%d" % (fn, s[2][1], "const" if cs else "value", n), loc_str(b.f, s[3]), "not compared with a signed type's bound")
                    continue
                if _sign_decided(b, i, root):
                    r.ok("%s|magnitude %s signed bound#%d" % (fn, s[2][1], n), loc_str(b.f, s[3]), "on an edge where is_neg is decided")
                    continue
                k += 1
                r.finding("%s|magnitude vs signed maximum without the sign#%d" % (fn, k), loc_str(b.f, s[3]),
                          "the magnitude of a literal that may be negative is compared with %s: the most negative value of the type (magnitude maximum + 1, e.g. SINT#-128) "
                          "is on the wrong side of this test" % ", ".join("%d (%s)" % (c, SIGNED_MAX.get(c) or SIGNED_MAX.get(c - 1, "") + " + 1") for c in hit))
    if not n:
        r.count_override = len([b for b in ctx.prog.bodies.values() if b.f["crate"] in ("ironplc_parser", "ironplc_dsl") and "::test" not in norm(b.id)])
        r.note("no comparison of a signed literal's magnitude today (type-prefixed integers are not range-checked); positive example: seeded/C09-O")
