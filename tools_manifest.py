#!/usr/bin/env python3
"""maintenance helper (not used by checks): regenerate MANIFEST.json from the table below."""
import json
NOTE = ("Thorough tier = quick + T-regress (today's rules re-run on the pinned pre-repair commit must re-detect every finding recorded as fixed) + T-seeds (seeded changes recorded for this property in seeded/EXPECT.json must still raise a violation on a scratch copy of HEAD). Trusted base: rustc's MIR/name resolution (nightly, mir-opt-level=0) is faithful to what `cargo build` ships; "
        "`cargo check --workspace` covers the product crates with default features; third-party crates honour their "
        "documented contracts; frozen tables inside the rules (each row with its reason) and the invariants listed in "
        "rules/panic_triage.py are argued by reading. The check decides necessary structural conditions only; the "
        "value-level remainder of the property is listed under 'not decided' in the evidence file.")
CLAIMED = {
 "C09": dict(
   text="Every numeric `as` cast on literal paths is classified by range propagation over the MIR expression (x / C, x % C, bounded fields): lossy ones are findings. Every FixedPoint a grammar action receives must have both parts read. The converter's accepted character set is cross-checked against the lexer regex alphabet. The lexer and DSL address regexes are parsed and compared (language, case, unbounded ASCII digit components, optional groups indexed). Fallible conversions must sit in `{? }` actions without unwrap/expect. Literal-path subset of the panic inventory. The mathematical value of accepted literals is not decided.",
   design="3 C09", technique="static analysis: MIR range propagation for casts, field-read completeness, regex AST comparison, sibling cross-check"),
 "C15": dict(
   text="Legend constants vs *_INDEX constants by name and the advertised legend; the token-kind match is exhaustive without wildcard and each arm agrees with the class derived independently from the lexer's #[token]/#[regex] attributes; delta_line/delta_start of every SemanticToken must data-depend on a subtraction (relative encoding); Ok token list only when the tokenizer's diagnostics are empty and Err answered with null. Monotonicity/non-overlap of decoded ranges and UTF-16 lengths are not decided. Also: tokens are computed from the current sources (cache coherence, stateless adapter) - the 'after arbitrary edit histories' clause.",
   design="3 C15", technique="static analysis: constant-table agreement, switch-arm extraction from MIR vs attribute-derived oracle, backward data-flow slice, CFG dominance"),
 "C11": dict(
   text="Path-sensitive exploration of handle_notification's MIR: exactly one publishDiagnostics on the didOpen/didChange arms, after change_text_document then semantic, built from the same notification's uri and Some(version); none elsewhere. Data-flow slice of contentChanges (last change must win). Who-writes analysis for Source fields and FileBackedProject.sources (cache coherence by construction) and callee identity of the analysis entry shared with `check`. Decides these structural clauses for all histories; equality of published content with a fresh server is not decided. Also: the LSP adapter and server hold no per-history state and LspProject::semantic always reaches Project::semantic.",
   design="3 C11", technique="static analysis: path-state exploration over MIR CFG, field who-writes, data-flow slicing"),
 "C12": dict(
   text="Panic-site inventory (as C04) from the LSP message loop; per-path response counting in handle_request (exactly one send_response carrying req.id on every exit class; Shutdown exemption derived from run()'s MIR guard); dispatch completeness of run()'s match on Message; call-graph proof that no response is reachable from handle_notification; run() returns Ok only on shutdown. Decides the survive/answer-once clauses structurally for all message sequences; liveness/interleavings and lsp-server internals are not decided. Also re-verifies the cache-coherence invariant that the map_label slice justification relies on; thorough tier cross-references the inventory against clippy's restriction lints.",
   design="3 C12", technique="static analysis: MIR panic inventory over call graph, path-state counting lattice, call-graph reachability"),
 "C13": dict(
   text="Path-sensitive exploration (with flag and pushed-vector pruning) of cli::check/echo/tokenize/create_project: Err returned iff a diagnostic was emitted / an Err arm taken / a non-empty diagnostic list seen; OK printed iff Ok returned; check's verdict is semantic()'s inspected Result; term::emit's Result must be inspected; main returns each command's Result unchanged. Directory/argument-order equivalence is not decided. Also: directory expansion drops no readable entry and every enumerated file is pushed (R-C13-dir).",
   design="3 C13", technique="static analysis: path-state exploration over MIR CFG, result-use analysis"),
 "C01": dict(
   text="Grammar-shape analysis of the PEG (reader cross-checked against rustc's rule set on every run) plus MIR: no labelled capture is unused (rustc's forced unused_variables lint mapped onto label positions), no value-returning nonterminal is used unlabelled in an action sequence, the precedence! block equals the Annex B.3.1 tiers/associativity/operator constants/operand order, keyword-token -> DSL-constant alternatives agree by name, list helpers do not demand a trailing separator, no placeholder Id/Type constants escape into the tree. Decides these necessary conditions of faithfulness for all inputs; tree equality with an independent reference is not decided. Also: every match on VarDeclarations has one arm per variant; no keyword token collides with a textual keyword of the grammar; component-level use analysis of structured captures (R-C01-consume) and of VarDeclarations::drain_* remainders (R-C01-drain).",
   design="3 C01", technique="static analysis: grammar reader for the PEG macro input, forced rustc lint, MIR escape analysis, table comparison against Annex B"),
 "C02": dict(
   text="Registry completeness of the rule and transform tables read from MIR function constants; analyze() applies semantic to resolve_types' result and returns it; each module constructs exactly its published Problem codes and every code is documented; traversal reachability over the Visitor/recurse_visit graph extracted from MIR (dead targets, cut-off overrides, blind containment edges above rule targets); per-scope visitor state is reset at scope boundaries (tables cleared, Option contexts reset on every path). The predicates of the rules themselves are not decided. ",
   design="3 C02", technique="static analysis: function-constant tables, call-graph over trait dispatch, type-containment vs traversal graph comparison, typestate on visitor fields"),
 "C03": dict(
   text="Path-sensitive accumulator analysis over every product function that owns a Vec<Diagnostic> (local, visitor field or tuple part): diagnostics that may have been collected must be read or moved out before Ok is returned; every name-keyed HashMap insert of a declaration in the analyzer must inspect the returned Option or be guarded by a failed lookup; every declaration kind parked by name in the topological re-assembly must also be a graph node; the tokenizer's diagnostics gate the parse. Decides these masking mechanisms for all file sets; companion-independence of individual rule predicates is not decided. Also: the file table's key identity (derived Eq/Hash/Ord on FileId) and the visitor scope-state rule shared with C02.",
   design="3 C03", technique="static analysis: typestate dataflow over MIR CFG (accumulator Clean/Dirty/Checked/Moved), result-use analysis, cross-check of match arms against visitor overrides"),
 "C05": dict(
   text="Provenance analysis of every SourceSpan field across parser and DSL constructors (token / default / copied-from, resolved through parameters, closures and Located impls to a fixed point) against every Label::span site of the analyzer: a label must not read a span that is only ever default(). join/join2 field pairing, the file-id fold (only fold_source_span overridden, start/end kept, reach of fold_id/fold_source_span, hidden containment edges, parse_program passes through the transform), token/identifier construction from one token and one lexer state, map_label reads start and end, no `+= 0` counter update. Tiling and line/column values are not decided.",
   design="3 C05", technique="static analysis: field-sensitive provenance fixpoint over MIR, traversal-graph reachability for Fold, aggregate operand provenance"),
 "C07": dict(
   text="All add_edge sites of the declaration graph are classified by the provenance of their endpoints (declared vs referenced name fields) and must share one orientation; every InitialValueAssignmentKind variant that can name another declaration must contribute an edge or be in the cannot-cycle table with its reason; toposort's cycle error maps to RecursiveCycle and is propagated; the alias walk has a fresh local seen-set tested on every back edge whose hit yields EnumRecursive. Exactness on all graphs is not decided (petgraph trusted).",
   design="3 C07", technique="static analysis: operand provenance at call sites, match-arm coverage vs type definition, CFG back-edge/dominance checks"),
 "C10": dict(
   text="For each of the renderer's overrides every non-span field of the node type must be read, handed to the default traversal or to a helper (else two different libraries render alike); every constant word/symbol the renderer writes must be in the lexer/grammar vocabulary; sibling matches over StringType must agree on quotes. Today's findings are frozen by the rendered fixtures and recorded as known findings. parse(render(L)) == L itself is not decided.",
   design="3 C10", technique="static analysis: grammar/writer token agreement (PEG reader x constant strings of the renderer's MIR), field-read completeness over MIR per override, vocabulary inclusion against lexer attributes and grammar literals, sibling cross-check"),
 "C14": dict(
   text="Byte-reading/decoding calls in product code occur only in source::path_to_source; it uses encoding_rs::Encoding::decode (BOM sniffing) over the constants [UTF_8, WINDOWS_1252] in that order (statics resolved from MIR pointer constants) and accepts output only when had_errors is false; every string range-index site reachable from the CLI/LSP entry points is discharged or triaged, and map_label's slice bounds are the label's own location fields. Cross-encoding equality of positions is not decided.",
   design="3 C14", technique="static analysis: who-may-call over resolved callees, constant/static resolution, CFG gate check, slice-site inventory"),
 "C06": dict(
   text="Every iteration over a std HashMap/HashSet in product code is found through resolved callees and classified: flowing into an ordered container is a finding, order-free consumers are a frozen table with reasons, anything else is unclassified and reported. FileId equality/hash must be the derived structural ones. Pipeline ordering obligations (concatenate before transforms, toposort first, table-filling walk dominates resolving fold, no positional indexing of Library.elements) checked by dominance on MIR. Permutation/partition invariance of verdicts themselves is not decided.",
   design="3 C06", technique="static analysis: resolved-callee site inventory, forward data-flow slice to collectors, CFG dominance"),
 "C08": dict(
   text="Lexer attribute table taken from the compiler's expanded AST: every lettered #[token]/#[regex] must carry ignore(case); no byte-wise string equality on Token.text inside grammar functions; Id equality/hash read only lower_case, Id built only by Id::from (to_lowercase), Id.original read only by the listed readers; every name table in parser/analyzer keyed by Id/Type; phf sets queried lower-cased; tokenize/parse pipeline links. The trivia clause (whitespace between any two tokens) is decided by the grammar reader rule R-C08-trivia when present. Equality of parsed libraries under respelling is not decided. R-C08-trivia is built: nullable/leads/trails fixpoint over the PEG, every adjacent pair of input-consuming elements in the 240 rules reachable from `library`, with a frozen exemption table for the rules that spell one lexical token.",
   design="3 C08", technique="static analysis: attribute-table lint over rustc AST, taint of Token.text into string equality on MIR, field who-reads, type-instantiation scan"),
 "C04": dict(
   text="Exhaustive static inventory of every panic-capable construct (unwrap/expect/panic!/todo!/index/overflow/div-by-zero asserts, documented-to-panic std/time APIs) reachable in the workspace call graph from tokenize/parse/analyze/render/CLI entry points; each site is discharged by a range/guard argument re-derived from the MIR on every run, justified by a listed invariant, or reported. Plus who-writes bound for FixedPoint.femptos, indent/outdent typestate over the renderer CFGs. Decides the 'never panics' clause for all inputs as far as the listed invariants hold; termination/time/stack are not decided. Thorough tier cross-references the inventory against an independent clippy restriction-lint run (recall check).",
   design="3 C04", technique="static analysis: MIR panic-site inventory over the resolved call graph, guard dominance and range propagation, typestate dataflow"),
}
ADD = {
 "C01": " Round 2: every recurse_fold arm rebuilds the variant it matched and feeds each field from the same-named field (R-C01-foldid); iterators over parsed nodes are consumed whole (R-C01-partial); consumed captures and drained declaration kinds (R-C01-consume/-drain).",
 "C02": " Round 2: no recurse_visit drops a child's Result (R-C02-propagate); a non-recursing override that inspects descendant nodes by hand covers every field below which that type occurs; scope stacks are used at one end only (R-C02-stackend); scoped visitors add names only below an enter/exit bracket (R-C02-bracket).",
 "C03": " Round 2: the two by-name maps are drained independently after the sort (R-C03-merge); resolve_types merges every source on every iteration and Library::extend appends wholesale (R-C03-allsources).",
 "C05": " Round 2: the LSP character is not computed from byte quantities (numeric backward slice, R-C05-units); a label's offsets are only combined with the file looked up from that label's file_id (R-C05-pair); a line advance in the lexer re-bases the column (R-C05-linecol); the OSCAT pre-processor writes byte for byte (R-C05-blank); joined spans keep a file id.",
 "C06": " Round 2: every source library is merged unconditionally and wholesale (R-C06-allsources); scope stack end agreement and enter/exit bracketing of name additions (R-C06-stackend, R-C06-bracket).",
 "C07": " Round 2: the name->node maps of the declaration graphs are keyed by Id (R-C07-keys).",
 "C08": " Round 2: the END_IF terminator inserter is evaluated as a transition table over (pending state x token class) with four obligations (R-C08-endif); trivia accepted between every adjacent token pair of every reachable production (R-C08-trivia).",
 "C09": " Round 2: literal text is not trimmed content-dependently (R-C09-trim).",
 "C10": " Round 2: operands of binary/compare expressions are parenthesised by every writer (R-C10-paren); block keywords and qualifiers are written unconditionally (R-C10-uncond); every f64->text conversion is checked for a fraction point (R-C10-real).",
 "C11": " Round 2: the LSP character is not computed from byte quantities (R-C11-units); joined spans keep the file id the server filters on (R-C11-join).",
 "C12": " Round 2: the text cut by map_label is the text of the label's own file (R-C12-pair); the pre-processor keeps byte positions (R-C12-blank).",
 "C13": " Round 2: every Err(Vec<Diagnostic>) built in the product crates is non-empty on its path (R-C13-nonempty); directory expansion drops no entry (R-C13-dir).",
 "C14": " Round 2: offsets are used on the string they were found in (R-C14-samestr); the pre-processor keeps byte positions (R-C14-blank).",
 "C15": " Round 2: token line/column: a line advance re-bases the column (R-C15-linecol); the pre-processor keeps byte positions (R-C15-blank).",
}
ADD3 = {
 "C01": " Round 3: parsed sequences keep their source order (no rev/rfold/sort/swap/last on sequences of parsed nodes, R-C01-order).",
 "C02": " Round 3: every registered stage reaches success only past all its fallible steps (R-C02-allwalks); no early `return <call>` bypasses later checks (R-C02-earlyok); the subrange comparison helper is interpreted over the finite domain of signs x zero-ness x order of magnitudes against a<b (R-C02-order); R-C02-merge.",
 "C03": " Round 3: single successful exit of every stage past all fallible steps (R-C03-allwalks); create_project only adds sources (R-C03-grow); no Result is consumed by an error-dropping adaptor (R-C03-errdrop).",
 "C04": " Round 3: every hand-written loop changes its exit state on every way round (R-C04-progress, natural loops + backward slice of exit tests); every recursion is a syntax-tree descent or justified (R-C04-recursion, SCCs of the call graph).",
 "C05": " Round 3: the lexer consumes nothing without a token (R-C05-tile); every name built from a token's text gets that token's span in any grammar closure (R-C05-copy); a column reset sits on a line-break branch (R-C05-linecol clause 2).",
 "C06": " Round 3: the sources container orders by key (R-C06-keyorder); no mutable global state (R-C06-globals); the declaration sort identifies names case-insensitively (R-C06-keys).",
 "C09": " Round 3: whole part and fraction of fixed-point durations are scaled by the same unit, by exact rational evaluation of the constructor arguments, and no division precedes a multiplication (R-C09-scale); no conversion error is dropped by an adaptor (R-C09-errdrop).",
 "C10": " Round 3: string contents are written as stored (R-C10-raw).",
 "C11": " Round 3: sources ordered by key, not by history (R-C11-keyorder); no mutable globals (R-C11-globals).",
 "C12": " Round 3: loop progress on the server's paths (R-C12-progress).",
 "C13": " Round 3: handle_diagnostics renders every diagnostic it is given (R-C13-emitall).",
 "C14": " Round 3: no mutable global state in the decoding path (R-C14-globals).",
 "C15": " Round 3: start and length of semantic tokens are not byte quantities (R-C15-units, numeric slice incl. the lexer's producer of Token.col); the advertised legend is the constant itself (R-C15-legend); the lexer consumes nothing silently (R-C15-tile).",
}
ADD4 = {
 "C01": " Round 4: literal text is never trimmed by content (R-C01-trim).",
 "C04": " Round 4: no hand-written member of a recursive component repeats a recursive call on the same value (R-C04-fanout); grammar constructs that turn a flat repetition into nesting are listed (R-C04-depth: two known findings).",
 "C05": " Round 4: spans filled from peg positions are token indices, not offsets (R-C05-prov token-index class); join arguments in source order (R-C05-joinorder); the stored document text is the text received (R-C05-verbatim).",
 "C06": " Round 4: per-scope visitor state (R-C06-scope).",
 "C07": " Round 4: every declaration kind that can name another type adds an edge (R-C07-decledges).",
 "C08": " Round 4: no ordered choice splits a glued and a spaced spelling of the same first token (R-C08-glue).",
 "C09": " Round 4: no wrap-around arithmetic on literal paths (R-C09-wrap).",
 "C10": " Round 4: the rendered text is not post-processed (R-C10-post); sub-second integers are padded to the digits of their unit (R-C10-fracpad); delimiters that parse as a wrapper node are written only for that node (R-C10-wrapnode, two known findings).",
 "C11": " Round 4: one identity per file: FileIds come from file-system paths (R-C11-idorigin).",
 "C12": " Round 4: responses sent by callees count (R-C12-reply, transitive); R-C12-fanout, R-C12-depth.",
 "C13": " Round 4: the directory is listed under its canonical path (R-C13-dir).",
 "C15": " Round 4: the document text is stored verbatim (R-C15-verbatim).",
}
ADD5 = {
 "C01": " Round 5: no rewriting of the raw text before the lexer outside the comment blanker (R-C01-prestep).",
 "C02": " Round 5: every place a variable or an enumeration value can be used is looked at by its rule (R-C02-uses, R-C02-enumuses); enumerated values are compared by value, not as whole nodes (R-C02-enumeq); ambiguous names are classified against the declarations (R-C02-latebound); tables of globals only take VAR_GLOBAL declarations (R-C02-globalkind); edge-triggered inputs are variables and inputs (R-C02-edgevars).",
 "C03": " Round 5: a cached parse result is never kept across a change of the text (R-C03-cache); the block-comment pattern is the reference language (R-C03-comment).",
 "C04": " Round 5: no analysis work on threads with the default stack (R-C04-threads).",
 "C05": " Round 5: line/column counted per character of all consumed text (R-C05-linecol clause 3); label and message of a syntax error name the same token (R-C05-syntaxlabel).",
 "C07": " Round 5: the sort and the cycle check run once, on the joined library (R-C07-pipeline), with per-scope state reset (R-C07-scope).",
 "C08": " Round 5: keyword passes are not gated by a test on the raw text (R-C08-rawtext, R-C08-prestep); the block-comment pattern equals the reference automaton (R-C08-comment).",
 "C10": " Round 5: the duration writer never drops the sub-second part (R-C10-durprec); the grammar binds unary operators tightest, which the renderer relies on (R-C10-prec).",
 "C11": " Round 5: the text of didOpen/didChange reaches the analysed Source unchanged (R-C11-doctext).",
 "C12": " Round 5: every message is dispatched on its kind and every Request reaches handle_request (R-C12-dispatch).",
 "C13": " Round 5: the file-table key has derived equality and order (R-C13-fileid).",
 "C14": " Round 5: the bytes read are decoded unmodified and whole (R-C14-rawbytes).",
 "C15": " Round 5: start and length are UTF-16 code units, not code points (R-C15-units code-point clause); the Newline token and the line counter agree with the protocol's line terminators (R-C15-newline).",
}
ADD6 = {
 "C01": " Round 6: the parser never reorders a list (R-C01-listorder) and no action takes apart a nested node of the type it builds (R-C01-restructure).",
 "C02": " Round 6: a value is looked up in its own enumeration's values (R-C02-enumexact); name tables of the rule modules are keyed case-insensitively (R-C02-keys).",
 "C03": " Round 6: R-C03-enumexact, marker search is forward only (R-C03-firstend), a name that is already present always yields an error (R-C03-dupreport).",
 "C04": " Round 6: no Display/Debug implementation formats self with itself (R-C04-fmtself); duration constructors only run on range-checked values (R-C04-durrange, see C09).",
 "C05": " Round 6: col is never advanced by a constant (R-C05-linecol clause 4); labels are computed from the parse of the current text (R-C05-cache); no length-changing pre-processing step (R-C05-prestep).",
 "C06": " Round 6: R-C06-dupreport.",
 "C07": " Round 6: initialiser kinds used for VAR_EXTERNAL references add no edge (R-C07-edges, reference-kind clause).",
 "C08": " Round 6: every look-ahead over tokens comes after the trivia has been skipped (R-C08-lookahead).",
 "C09": " Round 6: preconditions of the duration constructors established from their call sites (R-C09-durrange: guard shape, guarded sites with the right unit, bounded number of components); parsed reals are finite (R-C09-finite); a sign is which sign token was written (R-C09-choiceid).",
 "C10": " Round 6: list delimiters are written once around the list (R-C10-listdelim); all integer readers parse into one type (R-C10-intwidth).",
 "C11": " Round 6: R-C11-fileid.",
 "C12": " Round 6: R-C12-fmtself, R-C12-prestep, R-C12-durrange.",
 "C13": " Round 6: only the files of a directory are listed, and is_file() is the only test on a readable entry (R-C13-dir).",
 "C15": " Round 6: an encoded token list is never edited in place (R-C15-nodrop).",
}
ADD7 = {
 "C01": " Round 7: R-C01-scale (duration scaling under the 'same values' clause).",
 "C02": " Round 7: inline enumerations checked for duplicates (R-C02-enumunique), every task reference checked (R-C02-taskrefs), every type-naming initializer looked up (R-C02-typeuses), rebuilt nodes of the name resolver fold every expression field (R-C02-foldall).",
 "C03": " Round 7: allow_* options tested in the right sense (R-C03-optsense); the cached parse result is never borrowed mutably (R-C03-cache).",
 "C04": " Round 7: recursive lexer cycles listed by the token kinds they produce, each with what was measured at the 64 KiB bound (R-C04-recursion; the block-comment cycle is a known finding).",
 "C05": " Round 7: range ends have their own line counter (R-C05-rangeend); file numbers are the ids SimpleFiles::add returned (R-C05-fileidx).",
 "C06": " Round 7: the fallback file id is not assigned in hash order (R-C06-hash clause); sorted_ids returns toposort's order (R-C06-toporder).",
 "C07": " Round 7: whether a declaration is walked does not depend on the graph built so far (R-C07-edgeguard walk clause).",
 "C08": " Round 7: membership and prefix tests on token text count as case-sensitive comparisons (R-C08-text).",
 "C09": " Round 7: R-C09-prestep.",
 "C10": " Round 7: a writer for T does not merge a nested T into its parent (R-C10-restructure).",
 "C11": " Round 7: diagnostics are never put into a keyed container (R-C11-nodedup).",
 "C12": " Round 7: nothing in server mode prints to stdout (R-C12-stdout); R-C12-recursion.",
 "C13": " Round 7: enumerate_files fails only for file-system failures (R-C13-dir); no panic-capable construct in cli.rs/main (R-C13-panic).",
 "C15": " Round 7: a `//` comment token excludes its line break (R-C15-linecomment); R-C15-comment.",
}
ADD8 = {p: " Round 8: rules are evaluated on functions with same-file helpers spliced in and on function+closure units where that matters; the thorough tier also applies 45 behaviour-preserving patches (neutral/) and fails on any report (T-neutral)." for p in ["C%02d" % i for i in range(1, 16)]}
ADD9 = {
 "C02": " Round 9: declarations are told apart by name or identity, never by comparing their contents (R-C02-identity); the analyzer never takes a name apart (R-C02-wholename). Every field of the DSL that names a type is classified and every use is read by the type resolver on every containment path (R-C02-typefields); a declaration's own name enters its scope only for functions (R-C02-selfname); nothing below a program connection is looked up in the configuration's scope (R-C02-foreignscope); every initializer kind in which a function block instance can be written can become the FunctionBlock initializer (R-C02-fbinst). A table is not keyed by a digest of its contents (R-C02/C06/C07-keys).",
 "C03": " Round 9: the glue around the analysis never decides on the code of a problem (R-C03-anycode).",
 "C04": " Round 9: no element-by-element walk over an integer range whose bounds are numbers written in the source (R-C04-magnitude); no two alternatives of an ordered choice enter the same self-embedding rule after the same tokens unless it is #[cache]d (R-C04-backtrack, grammar analysis; found and fixed 2^depth re-parsing); the lexer reports a run of invalid text once (R-C04-errrun; found and fixed quadratic output); the loop-progress rule knows that cutting a text at a found position is no progress; indent()/outdent() are unconditional +1/-1.",
 "C05": " Round 9: every call of the CLI's handle_diagnostics made where a project exists passes it (R-C05-display; echo showed labels against empty text, fixed); a node built by a fold takes its position-bearing parts from the node it replaces (R-C05-synth); directly represented variables now carry positions (6 known findings fixed). A published diagnostic takes the label that lies in the document (R-C05-doclabel); the span of a negative bound covers sign and digits (R-C05-signspan); positions written as fold accumulators are accepted (R-C05-rangeend).",
 "C07": " Round 9: the current-container field is found through a helper that every override calls with the declaration's own name. The Simple initializer adds its edge and the builder does not descend into VAR_EXTERNAL declarations (fix ef105cc; the reference-kind clause of R-C07-edges decides the cut on the builder's own visit_var_decl).",
 "C08": " Round 9: only a keyword that ends a statement arms the terminator inserter, evaluated for every TokenType variant against the grammar (R-C08-endif-arm); a function that singles out comment tokens looks at no more than the opener of their text (R-C08-commenttext). The comment token written as `#[token(\"(*\", callback)]` is exactly `(*` .. first `*)`: the callback searches lexer.remainder() forward for the constant closer and bumps past it (second recogniser of R-C08-comment).",
 "C10": " Round 9: token agreement between grammar and writer (R-C10-tokens): for every node kind, among the productions with own terminals that build it at least one has all its terminals spelled by a writer of the node (override, field readers, nearest overriding ancestors beyond what their own productions need); found 26 nodes whose delimiters/keywords were never written, 14 repaired by fix: commits, 5 frozen by fixtures recorded as known. Also: the renderer's own panic inventory and indentation balance (R-C10-panic/-pair), no token-level pass singles out bracket tokens (R-C10-delimcount). No blank is written inside a lexical token (R-C10-glue); a DSL enum written with the Debug formatter must be named by the text the front end reads for every variant that reaches that place (R-C10-debugname).",
 "C11": " Round 9: every problem LspProject::semantic returns comes out of its one call of Project::semantic (R-C11-origin). A published diagnostic takes the label that lies in the document (R-C11-doclabel); only a URL with scheme `file` is a file (R-C11-scheme, fix f50a9a7).",
 "C12": " Round 9: R-C12-magnitude/-backtrack/-errrun (as C04: the same parser and lexer run on didOpen/didChange).",
 "C13": " Round 9: an Err that is stored and handed to a loop that matches every item is no obligation of the arm that stores it (R-C13-emit); non-emptiness is followed through one-to-one adaptors (R-C13-nonempty). The command functions are decided with the helpers of cli.rs spliced in and the variant of each Result variable tracked per path; the panic inventory of cli.rs/main (R-C13-panic) re-binds a justification only when it is free in the whole inventory.",
 "C14": " Round 9: nothing is decided on the encoded size of a source file (R-C14-bytesize); the API and raw-bytes rules are decided on the decoding unit (path_to_source, its closures and the helpers of source.rs it calls).",
 "C01": " Round 9: a component read somewhere in a grammar action is read on every path (R-C01-consume, path clause); a field the parser fills and nothing but derived code reads (R-C01-deadfield); every word expected as an identifier token matches the lexer's Identifier pattern (R-C01-ideq).",
 "C09": " Round 9: every id_eq/dt_sep word is an Identifier for the lexer (R-C09-ideq); the duration guard is recognised in the is_some_and form and through a helper that receives (unit, constructor) together; the magnitude of a signed literal is not compared with a signed type's maximum without the sign (R-C09-signedbound).",
 "C15": " Round 9: R-C15-scheme (as C11); the re-encoding of tokens may live in a helper of the same file; the null-result rule finds the function that asks for the tokens.",
}
ADD10 = {
 "C01": " Round 10: blanks and comments are accepted between any two tokens of a production (R-C01-trivia, the rule of C08 registered here); the action of a labelled token choice must look at the token's kind or text (R-C01-choiceid). Round 11: a real literal is rounded once (R-C01-oneround).",
 "C02": " Round 10: a table that visit methods fill and reset is reset below every kind of library element from which the filling method is reachable (R-C02-scope, every-way clause; found and fixed configuration globals leaking into later POUs).",
 "C03": " Round 10: the declaration-local rules keep no table of other declarations (R-C03-local); push returns Ok only behind the call that stores the file (R-C03-pushadds); main hands the command's Result on unchanged (R-C03-exit).",
 "C04": " Round 10: byte offsets are used on the string they were found in (R-C04-samestr); what runs for a lexer error follows the Err edge of later tests of the same value (R-C04-errrun). Round 11: the grammar's start rule accepts the empty token list, so the error mapping never runs for position 0 (R-C04-emptyok).",
 "C05": " Round 10: every token kind that can contain a line break is counted character by character on every path of a lexer-loop iteration that kind can take (R-C05-linecol clause 3, path-sensitive per kind); inside lsp_project the document text is only sliced and measured (R-C05-measured); a label joined from a span that an analyzer transform fills with the default span (R-C05-prov join clause); the span of a number includes an optional plus sign (R-C05-signspan). Round 11: offsets are used on the string they were found in (R-C05-samestr).",
 "C06": " Round 10: the set of files does not shrink while arguments are added (R-C06-grow); every marker search of a pre-processing step is repeated until nothing is found (R-C06-everyblock; found and fixed: only the first OSCAT block of a file was blanked).",
 "C07": " Round 10: every way from a library element / type declaration kind to a method of the graph builder that needs the current declaration passes an override that sets it (R-C07-context; found and fixed: simple type declarations with an initial value).",
 "C08": " Round 10: in the analyzer the display text of a name only flows into diagnostic context (R-C08-nametext); R-C08-everyblock (as C06).",
 "C09": " Round 10: no floating-point arithmetic on literal paths except the grammar's sign constant (R-C09-oneround).",
 "C10": " Round 10: terminals of a production are written in the production's order, among themselves and relative to the children (R-C10-order, 229 obligations); comma-separated writers write exactly one comma between consecutive elements on every feasible path - flags, peek and list emptiness are tracked (R-C10-seplist).",
 "C12": " Round 10: R-C12-samestr, R-C12-errrun (as C04). Round 11: R-C12-emptyok (as C04).",
 "C13": " Round 10: push returns Ok only behind the call that stores the file (R-C13-pushadds). Round 11: the path arguments are not rewritten by the argument parser (R-C13-argv); every tokenized file's problems are tested before the next file (R-C13-everyfile).",
 "C14": " Round 10: every argument of logos Lexer::bump is a byte quantity (R-C14-bump); offsets found in a part of a text, or a match end (position + needle length), are offsets of that text (R-C14-samestr). Round 11: the decoded text is only copied on its way to the result (R-C14-asdecoded).",
 "C15": " Round 10: R-C15-linecol clause 3 (as C05); the document text is only sliced and measured inside lsp_project (R-C15-measured). Round 11: of several whole-document events the last one counts (R-C15-last).",
}
NA_REASON = "check not built yet (round 1 in progress); see DESIGN.md section 3 for the planned static rules"
props = [json.loads(l) for l in open("/verif/properties.jsonl")]
checks = []
for p in props:
    c = CLAIMED.get(p["id"])
    if not c:
        continue
    checks.append({
        "property_id": p["id"],
        "quick_cmd": "./check %s" % p["id"],
        "thorough_cmd": "./check %s --thorough" % p["id"],
        "evidence_file": "/verif/evidence/%s.json" % p["id"],
        "replay_cmd_template": "./check %s --replay {path}" % p["id"],
        "engine": "mirfacts+rules",
        "level_claimed": {"category": "other", "text": c["text"] + ADD.get(p["id"], "") + ADD3.get(p["id"], "") + ADD4.get(p["id"], "") + ADD5.get(p["id"], "") + ADD6.get(p["id"], "") + ADD7.get(p["id"], "") + ADD8.get(p["id"], "") + ADD9.get(p["id"], "") + ADD10.get(p["id"], ""), "design_ref": c["design"] + ", R2, R3, R4, R5, R6, R7, R8, R9, R10"},
        "level_note": NOTE,
        "technique": c["technique"],
    })
m = {
 "version": 1,
 "setup_cmd": "./setup.sh",
 "hooks": {"guard": "ironplc_verif", "enable": "none needed: static analysis reads the tree as it is (no hooks are compiled in)",
           "baseline_off_cmd": "cd /repo/compiler && cargo test --workspace --no-fail-fast --offline", "source_commits": [], "add_only": True},
 "engines": [
   {"name": "mirfacts", "path": "engines/mirfacts", "serves_properties": sorted(CLAIMED), "kind_free_text": "rustc_private driver (nightly) dumping structured MIR, resolved callees, ADTs and attributes as JSON facts; injected via RUSTC_WORKSPACE_WRAPPER under cargo +nightly check --workspace"},
   {"name": "rules", "path": "rules", "serves_properties": sorted(CLAIMED), "kind_free_text": "Python rule modules over the fact base: call graph, CFG dominance, dataflow, attribute tables; finding protocol in vlib/report.py"},
 ],
 "checks": checks,
 "notes": "All checks are static: they rebuild facts from /repo's current working tree (content-hashed cache under /verif/.cache) and never run ironplc. known_findings.json lists confirmed genuine defects by exact key.",
 "not_applicable": [{"property_id": p["id"], "reason": NA_REASON} for p in props if p["id"] not in CLAIMED],
}
json.dump(m, open("/verif/MANIFEST.json", "w"), indent=1)
print("claimed:", sorted(CLAIMED))
