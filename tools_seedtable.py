#!/usr/bin/env python3
"""maintenance helper: print the markdown table of DESIGN.md section 6 from seeded/RESULTS.json and seeded/DESCRIPTIONS.json"""
import json, re
res = json.load(open("/verif/seeded/RESULTS.json"))
desc = json.load(open("/verif/seeded/DESCRIPTIONS.json"))
def rules(ls):
    out = []
    for l in ls:
        m = re.search(r"finding C\d\d/(R-[A-Za-z0-9-]+|checker-crash)", l)
        if m and m.group(1) not in out:
            out.append(m.group(1))
    return out
own = other = miss = 0
print("| seed | what it does | caught by |")
print("|---|---|---|")
for s in sorted(res):
    v = res[s]
    prop = s.split("-")[0]
    if s == "C07-K" and (not v or "error" in v):
        print("| %s | %s | neutralised by fix ef105cc: the edge it adds for a Simple initializer is now in the tree, together with the cut for VAR_EXTERNAL declarations whose absence was the seed's defect; caught before that by C07 R-C07-edges (reference-kind clause) |" % (s, desc.get(s, ""))); continue
    if s == "C06-P":
        print("| %s | %s | retired: after the type-resolver fixes (bb12be8, c0adbbb) the patch needed a rebase, and on the rebased tree its demonstration holds for every arrangement (the sort now visits the uses in one order for that unit); not counted. Caught before that by C06 R-C06-firstwins |" % (s, desc.get(s, ""))); continue
    if s == "C12-C" and (not v or "error" in v):
        print("| %s | %s | retired: fix 61668f6 (a problem is published at the label that lies in the document) removed its mechanism - the label handed to map_label is now always one of the document, so looking the text up once per document is correct; caught before that by C12 R-C12-panic, C05 R-C05-prov |" % (s, desc.get(s, ""))); continue
    if not isinstance(v, dict) or "error" in v:
        print("| %s | %s | n/a (%s) |" % (s, desc.get(s, ""), (v or {}).get("error", "no patch")[:60])); continue
    if not v and s in ("C05-B", "C15-D"):
        print("| %s | %s | retired: its code site (the Comment arm of the lexer) was removed by fix b100587; caught before that by C04/C05/C12(/C15) |" % (s, desc.get(s, ""))); continue
    if not v and s == "C07-B":
        print("| %s | %s | retired: after fix e277221 an existing test fails with it (the rule now also resolves type declarations' defaults); caught before that by C02 R-C02-scope, C03 R-C03-scope, C07 R-C07-map |" % (s, desc.get(s, ""))); continue
    if not v and s == "C15-I":
        print("| %s | %s | neutralised by fix 16e17d2 (the loop it extracted into a shared helper now counts UTF-16 units, so the refactoring is correct); caught before that by C15 R-C15-units |" % (s, desc.get(s, ""))); continue
    if not v and s == "C07-F":
        print("| %s | %s | neutralised by fix 5cee671 (its edge orientation became the correct one; the edit was adopted as fix b97222d) |" % (s, desc.get(s, ""))); continue
    if not v and s == "C04-B":
        print("| %s | %s | neutralised by fix 5b46f8a (see round 1) |" % (s, desc.get(s, ""))); continue
    if not v:
        miss += 1
        print("| %s | %s | **missed** |" % (s, desc.get(s, "")))
        continue
    parts = []
    for p in sorted(v, key=lambda p: (p != prop, p)):
        parts.append("%s %s" % (p, ", ".join(rules(v[p])[:3])))
    if prop in v:
        own += 1
    else:
        other += 1
    print("| %s | %s | %s%s |" % (s, desc.get(s, ""), "; ".join(parts), "" if prop in v else " *(not by its own property's check)*"))
print()
print("own=%d other-only=%d missed=%d total=%d" % (own, other, miss, own + other + miss))
