#!/bin/sh
# Build the framework offline from files on disk: the rustc_private fact driver, then warm the
# dependency artefacts of /repo under /verif/.cache by extracting facts once.
set -e
cd "$(dirname "$0")"
export CARGO_NET_OFFLINE=true
(cd engines/mirfacts && cargo build --release --offline)
python3 vlib/facts.py
