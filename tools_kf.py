#!/usr/bin/env python3
"""maintenance helper (not used by checks): add entries to known_findings.json
usage: tools_kf.py <property> <key> <what_fails> <input>"""
import json, sys
p = "/verif/known_findings.json"
d = json.load(open(p))
prop, key, what, inp = sys.argv[1:5]
full = key if key.startswith(prop + "/") else prop + "/" + key
d["findings"] = [f for f in d["findings"] if f["key"] != full]
d["findings"].append({"property": prop, "key": full, "status": "known", "what_fails": what, "input": inp})
d["findings"].sort(key=lambda f: (f["property"], f["key"]))
json.dump(d, open(p, "w"), indent=1)
