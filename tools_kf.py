#!/usr/bin/env python3
"""maintenance helper (not used by checks): add entries to known_findings.json
usage: tools_kf.py <property> <key> <what_fails> <input>                 -> status known
       tools_kf.py --fixed <commit> <property> <key> <what_fails> <input> -> status fixed"""
import json, sys
p = "/verif/known_findings.json"
d = json.load(open(p))
a = sys.argv[1:]
commit = None
if a[0] == "--fixed":
    commit = a[1]
    a = a[2:]
prop, key, what, inp = a[:4]
full = key if key.startswith(prop + "/") else prop + "/" + key
d["findings"] = [f for f in d["findings"] if f["key"] != full]
e = {"property": prop, "key": full, "status": "fixed" if commit else "known", "what_fails": what, "input": inp}
if commit:
    e["commit"] = commit
    e["fixed"] = "fixed: property=%s %s %s" % (prop, commit, what)
d["findings"].append(e)
d["findings"].sort(key=lambda f: (f["property"], f["key"]))
json.dump(d, open(p, "w"), indent=1)
