"""Splice the bodies of small helper functions into a caller (a MIR-level inliner over the fact format).

Why: a rule that reasons about one function ("in tokenize, every advance of the line counter comes with a reset of the column") is a
statement about behaviour, and behaviour does not change when a maintainer moves the loop into `advance_position(text, line, col)`.
Rules that want that robustness ask for `inlined(prog, body)`: the caller with every call to a free function or inherent method of the
*same source file* replaced by the callee's blocks (parameters become assignments, returns become jumps, the return place is copied to
the call's destination).  Closures are not touched (they are not direct calls), nor are trait methods resolved through `dyn`.

The result is an ordinary Body; locals and blocks of the callee are appended with an offset, so places, projections and constants keep
their meaning.  `f["inlined"]` lists what was spliced in (for the evidence)."""
import copy
import re
from vlib.mir import Body, norm


def _place(p, lo):
    return [p[0] + lo, [_proj(x, lo) for x in p[1]]]


def _proj(x, lo):
    if isinstance(x, list) and x and x[0] == "i":
        return ["i", x[1] + lo]
    return x


def _operand(o, lo):
    if o and o[0] in ("cp", "mv"):
        return [o[0], _place(o[1], lo)]
    return o


def _rvalue(rv, lo):
    k = rv[0]
    if k in ("use",):
        return [k, _operand(rv[1], lo)] + rv[2:]
    if k == "rep":
        return [k, _operand(rv[1], lo)] + rv[2:]
    if k in ("ref", "ptr"):
        return [k, rv[1], _place(rv[2], lo)] + rv[3:]
    if k == "cast":
        return [k, rv[1], _operand(rv[2], lo)] + rv[3:]
    if k == "bin":
        return [k, rv[1], _operand(rv[2], lo), _operand(rv[3], lo)] + rv[4:]
    if k == "un":
        return [k, rv[1], _operand(rv[2], lo)] + rv[3:]
    if k == "disc":
        return [k, _place(rv[1], lo)] + rv[2:]
    if k == "agg":
        return [k, rv[1], [_operand(o, lo) for o in rv[2]]] + rv[3:]
    return rv


def _stmt(s, lo):
    if s[0] == "=":
        return ["=", _place(s[1], lo), _rvalue(s[2], lo)] + s[3:]
    if s[0] == "sd":
        return ["sd", _place(s[1], lo)] + s[2:]
    return s


def _bbref(x, bo):
    return x + bo if isinstance(x, int) else x


def _term(t, lo, bo, ret_to):
    k = t[0]
    if k == "goto":
        return ["goto", t[1] + bo]
    if k == "switch":
        return ["switch", _operand(t[1], lo), [[v, b + bo] for v, b in t[2]], _bbref(t[3], bo)] + t[4:]
    if k == "call":
        return ["call", t[1], [_operand(a, lo) for a in t[2]], _place(t[3], lo), _bbref(t[4], bo), _bbref(t[5], bo)] + t[6:]
    if k == "assert":
        return ["assert", _operand(t[1], lo), t[2], t[3], [_operand(a, lo) for a in t[4]], _bbref(t[5], bo), _bbref(t[6], bo)] + t[7:]
    if k == "drop":
        return ["drop", _place(t[1], lo), _bbref(t[2], bo), _bbref(t[3], bo)] + t[4:]
    if k == "ret":
        return ["goto", ret_to]
    return t


def _repromote(x, po):
    """renumber `..::promoted[k]` constants of a spliced callee"""
    if isinstance(x, dict):
        return {k: _repromote(v, po) for k, v in x.items()}
    if isinstance(x, list):
        if len(x) >= 3 and x[0] == "c" and isinstance(x[2], str):
            m = re.search(r"::promoted\[(\d+)\]$", x[2])
            if m:
                return x[:2] + [x[2][:m.start()] + "::promoted[%d]" % (int(m.group(1)) + po)] + x[3:]
        return [_repromote(v, po) for v in x]
    return x


def inlined(prog, body, depth=2, max_blocks=200, accept=None, unify=True):
    """`body` with direct calls to same-file, non-closure workspace functions spliced in (repeated `depth` times)."""
    f = copy.deepcopy(body.f)
    f["inlined"] = []
    for _ in range(depth):
        changed = False
        nblocks = len(f["bbs"])
        for i in range(nblocks):
            t = f["bbs"][i]["t"]
            if t[0] != "call":
                continue
            callee = norm(t[1].get("d")) if t[1].get("d") else None
            tg = prog.get(callee) if callee else []
            if not tg:
                continue
            h = tg[0]
            if h.f.get("file") != f.get("file") or h.f.get("dk") == "Closure" or norm(h.id) == norm(body.id) or len(h.bbs) > max_blocks:
                continue
            if h.f.get("crate") != f.get("crate") or t[4] is None:
                continue
            if accept is not None and not accept(h):
                continue
            lo, bo = len(f["locals"]), len(f["bbs"])
            f["locals"] = f["locals"] + copy.deepcopy(h.f["locals"])
            args, dest, target, loc = t[2], t[3], t[4], (t[6] if len(t) > 6 else [0, 0, 0])
            # a block that copies the callee's return place into the destination and continues after the call
            retbb = bo + len(h.bbs)
            # the callee's promoted constants move with it (`x == TokenType::Semicolon` compares with `callee::promoted[k]`)
            po = len(f.get("promoted") or [])
            f["promoted"] = list(f.get("promoted") or []) + copy.deepcopy(h.f.get("promoted") or [])
            for hb in h.bbs:
                f["bbs"].append(_repromote({"s": [_stmt(s, lo) for s in hb["s"]], "t": _term(hb["t"], lo, bo, retbb), "cu": hb.get("cu", False)}, po))
            f["bbs"].append({"s": [["=", dest, ["use", ["mv", [lo, []]]], loc]], "t": ["goto", target], "cu": False})
            # the call block: parameters := arguments, then jump to the callee's entry
            pre = [["=", [lo + 1 + k, []], ["use", a], loc] for k, a in enumerate(args)]
            f["bbs"][i] = {"s": f["bbs"][i]["s"] + pre, "t": ["goto", bo], "cu": f["bbs"][i].get("cu", False)}
            f["inlined"].append(norm(h.id))
            changed = True
        if not changed:
            break
    b = Body(f)
    if unify and f["inlined"]:
        b = _unify_roundtrips(b)
    return b


def _rename_local(f, blocks, old, new):
    def pl(p):
        return [new if p[0] == old else p[0], [(["i", new] if isinstance(x, list) and x and x[0] == "i" and x[1] == old else x) for x in p[1]]]

    def opnd(o):
        return [o[0], pl(o[1])] if o and o[0] in ("cp", "mv") else o
    for i in blocks:
        bb = f["bbs"][i]
        ns = []
        for s in bb["s"]:
            if s[0] == "=":
                rv = s[2]
                k = rv[0]
                if k in ("use", "rep"):
                    rv = [k, opnd(rv[1])] + rv[2:]
                elif k in ("ref", "ptr"):
                    rv = [k, rv[1], pl(rv[2])] + rv[3:]
                elif k == "cast":
                    rv = [k, rv[1], opnd(rv[2])] + rv[3:]
                elif k == "bin":
                    rv = [k, rv[1], opnd(rv[2]), opnd(rv[3])] + rv[4:]
                elif k == "un":
                    rv = [k, rv[1], opnd(rv[2])] + rv[3:]
                elif k == "disc":
                    rv = [k, pl(rv[1])] + rv[2:]
                elif k == "agg":
                    rv = [k, rv[1], [opnd(o) for o in rv[2]]] + rv[3:]
                ns.append(["=", pl(s[1]), rv] + s[3:])
            else:
                ns.append(s)
        bb["s"] = ns
        t = bb["t"]
        if t[0] == "switch":
            bb["t"] = ["switch", opnd(t[1])] + t[2:]
        elif t[0] == "call":
            bb["t"] = ["call", t[1], [opnd(a) for a in t[2]], pl(t[3])] + t[4:]
        elif t[0] == "assert":
            bb["t"] = ["assert", opnd(t[1]), t[2], t[3], [opnd(a) for a in t[4]]] + t[5:]
        elif t[0] == "drop":
            bb["t"] = ["drop", pl(t[1])] + t[2:]


def _unify_roundtrips(b):
    """`(line, col) = helper(text, line, col)`: a by-value parameter that the helper updates and hands back in the tuple slot from which the
    caller assigns it to the very variable that was passed.  After splicing, such a parameter *is* the caller's variable: rename it, and
    drop the copy-in / copy-back statements, so that per-variable rules see one variable."""
    f = b.f

    def origin_local(bd, l, hops=4):
        """follow `_a = copy/move _b` through single-definition temporaries"""
        for _ in range(hops):
            d = bd.single_def(l)
            if d and d[0] == "stmt" and d[3][0] == "use" and d[3][1][0] in ("cp", "mv") and not d[3][1][1][1] and l > f["argc"]:
                l = d[3][1][1][0]
            else:
                break
        return l

    def origin_place(bd, pl, hops=4):
        """follow temporaries until a place with a projection (tmp.k) or a multiply-defined local is reached"""
        for _ in range(hops):
            if pl[1]:
                return pl
            d = bd.single_def(pl[0])
            if d and d[0] == "stmt" and d[3][0] == "use" and d[3][1][0] in ("cp", "mv") and pl[0] > f["argc"]:
                pl = d[3][1][1]
            else:
                break
        return pl
    for _round in range(6):
        b = Body(f)
        done = False
        for i, bb in enumerate(f["bbs"]):
            for j, s in enumerate(bb["s"]):
                # copy-in: param := use X  (plain locals), generated by the splice; X is (a temporary copy of) the caller's variable L
                if not (s[0] == "=" and not s[1][1] and s[2][0] == "use" and s[2][1][0] in ("cp", "mv") and not s[2][1][1][1]):
                    continue
                prm = s[1][0]
                if prm <= f["argc"] or len(b.defs.get(prm, [])) < 2:
                    continue        # a parameter that the helper never assigns is not a round trip
                L = origin_local(b, s[2][1][1][0])
                if prm == L or f["locals"][prm][0] != f["locals"][L][0]:
                    continue
                # copy-back: L := .. (tmp.k) with tmp := .. ret, ret := tuple(.., (a copy of) prm at k, ..)
                back = None
                for i2, j2, s2 in b.all_stmts():
                    if not (s2[0] == "=" and s2[1] == [L, []] and s2[2][0] == "use" and s2[2][1][0] in ("cp", "mv")):
                        continue
                    src = origin_place(b, s2[2][1][1])
                    fs = [x for x in src[1] if isinstance(x, list) and x[0] == "f"]
                    if len(fs) != 1 or len(src[1]) != 1 or not str(fs[0][2]).isdigit():
                        continue
                    k = int(fs[0][2])
                    tl = origin_local(b, src[0])
                    d = b.single_def(tl)
                    if d and d[0] == "stmt" and d[3][0] == "agg" and d[3][1].get("k") == "tuple" and k < len(d[3][2]):
                        o = d[3][2][k]
                        if o[0] in ("cp", "mv") and not o[1][1] and origin_local(b, o[1][0]) == prm:
                            back = (i2, j2)
                if back is None:
                    continue
                _rename_local(f, range(len(f["bbs"])), prm, L)
                f["bbs"][i]["s"][j] = ["nop"]
                f["bbs"][back[0]]["s"][back[1]] = ["nop"]
                for bb2 in f["bbs"]:
                    bb2["s"] = [x for x in bb2["s"] if x != ["nop"]]
                done = True
                break
            if done:
                break
        if not done:
            break
    return Body(f)
