"""Finding protocol, known findings, evidence files."""
import hashlib, json, os, re, time

VERIF = os.path.dirname(os.path.dirname(os.path.abspath(__file__)))
KNOWN = os.path.join(VERIF, "known_findings.json")
# scratch runs (seeded-change experiments against a copy of /repo) must not overwrite the registered evidence
EVDIR = os.environ.get("VERIF_EVIDENCE_DIR") or os.path.join(VERIF, "evidence")


class Rule:
    def __init__(self, rep, rid, text, floor=None, floor_what="instances"):
        self.rep = rep
        self.id = rid
        self.text = text
        self.floor = floor
        self.floor_what = floor_what
        self.instances = []   # (instance, verdict, where, detail)
        self.notes = []

    def ok(self, instance, where=None, detail=None):
        self.instances.append({"instance": instance, "verdict": "ok", "where": where, "detail": detail})

    def finding(self, instance, where=None, detail=None):
        self.instances.append({"instance": instance, "verdict": "finding", "where": where, "detail": detail})

    def justified(self, instance, reason, where=None, detail=None):
        self.instances.append({"instance": instance, "verdict": "justified", "where": where,
                               "detail": detail, "reason": reason})

    def note(self, text):
        self.notes.append(text)

    def count(self):
        # rules whose expected number of findings is zero count what they scanned (a positive control for the matcher)
        return getattr(self, "count_override", None) or len(self.instances)


class Report:
    def __init__(self, prop, tier="quick", seed=0):
        self.prop = prop
        self.tier = tier
        self.seed = seed
        self.rules = []
        self.t0 = time.time()
        self.errors = []      # checker errors: missing anchors, floors (fail closed)
        self.analysed = {}
        self.assumptions = []
        self.not_decided = []
        self.extra = {}

    def rule(self, rid, text, floor=None, floor_what="instances"):
        r = Rule(self, rid, text, floor, floor_what)
        self.rules.append(r)
        return r

    def error(self, rid, msg):
        self.errors.append((rid, msg))

    # --------------------------------------------------------------------------------------
    def finish(self):
        known = []
        if os.path.exists(KNOWN):
            known = json.load(open(KNOWN))["findings"]
        kmap = {}
        for k in known:
            if k.get("property") == self.prop:
                kmap[k["key"]] = k
        lines = []
        viol = []
        nknown = 0
        found_keys = set()
        for r in self.rules:
            n_f = sum(1 for i in r.instances if i["verdict"] == "finding")
            lines.append("rule %s: %d instance(s) analysed%s, %d finding(s) -- %s" % (
                r.id, r.count(), (" (floor %d)" % r.floor) if r.floor is not None else "", n_f, r.text))
            for n in r.notes:
                lines.append("    note: " + n)
            if r.floor is not None and r.count() < r.floor:
                self.errors.append((r.id, "rule matched %d %s < floor %d (fail closed: the anchor moved or "
                                          "the rule no longer sees its instances)" % (r.count(), r.floor_what, r.floor)))
            for i in r.instances:
                if i["verdict"] != "finding":
                    continue
                key = "%s/%s/%s" % (self.prop, r.id, i["instance"])
                i["key"] = key
                found_keys.add(key)
                k = kmap.get(key)
                if k and k.get("status") == "known":
                    nknown += 1
                    i["known"] = True
                    lines.append("KNOWN-FINDING: property=%s %s [%s] %s" % (self.prop, k.get("what_fails", ""), key, i.get("where") or ""))
                else:
                    viol.append((r, i, key))
        for rid, msg in self.errors:
            key = "%s/%s/CHECKER-FAIL-CLOSED" % (self.prop, rid)
            viol.append((None, {"instance": "CHECKER-FAIL-CLOSED", "where": None, "detail": msg}, key))
        stale = [k for k, v in kmap.items() if v.get("status") == "known" and k not in found_keys]
        for k in stale:
            lines.append("note: known finding no longer found (stale entry, suppresses nothing): " + k)
        vdir = os.path.join(EVDIR, "violations", self.prop)
        vlines = []
        for r, i, key in viol:
            os.makedirs(vdir, exist_ok=True)
            safe = re.sub(r"[^A-Za-z0-9_.-]+", "_", key)[:150] + "-" + hashlib.sha1(key.encode()).hexdigest()[:8]
            path = os.path.join(vdir, safe + ".json")
            with open(path, "w") as fh:
                json.dump({"property": self.prop, "key": key, "rule": r.id if r else None,
                           "rule_text": r.text if r else None, "instance": i}, fh, indent=1)
            lines.append("  finding %s at %s: %s" % (key, i.get("where"), i.get("detail")))
            vlines.append("VIOLATION property=%s replay=%s" % (self.prop, path))
        wall = time.time() - self.t0
        ninst = sum(r.count() for r in self.rules)
        samples = []
        for r in self.rules:
            for i in r.instances[:3]:
                samples.append({"rule": r.id, "instance": i["instance"], "verdict": i["verdict"], "where": i.get("where")})
        distinct = len({(r.id, i["instance"]) for r in self.rules for i in r.instances})
        ev = {
            "property_id": self.prop,
            "tier": self.tier,
            "seed": self.seed,
            "level": "other",
            "coverage": {
                "explanation": "Static analysis of /repo's current sources (rustc MIR/ADT facts via a rustc_private driver, "
                               "forced rustc lints, PEG grammar reader). Each rule is a necessary structural condition of the "
                               "property, evaluated on every instance found; nothing is executed. Decided clauses: " +
                               "; ".join("%s (%d inst.)" % (r.id, r.count()) for r in self.rules) +
                               ". Not decided by this technique: " + "; ".join(self.not_decided),
                "evaluations": max(ninst, 1),
                "distinct_nontrivial": max(distinct, 0),
                "rule": "one evaluation = one rule instance (call site, function, field, grammar element, table row) "
                        "found in the current tree; distinct = distinct (rule, instance-key) pairs",
                "samples": samples[:40] or [{"note": "no instances"}],
                "obligations": ninst,
                "discharged": sum(1 for r in self.rules for i in r.instances if i["verdict"] in ("ok", "justified")),
                "rules": [{"id": r.id, "text": r.text, "instances": r.count(), "floor": r.floor,
                           "findings": [i["instance"] for i in r.instances if i["verdict"] == "finding"],
                           "justified": [{"instance": i["instance"], "reason": i.get("reason")} for i in r.instances if i["verdict"] == "justified"],
                           "notes": r.notes,
                           "all_instances": [i["instance"] for i in r.instances][:400]} for r in self.rules],
                "analysed": self.analysed,
                "known_findings_matched": nknown,
                "new_violations": len(viol),
                "checker_errors": ["%s: %s" % e for e in self.errors],
                "exhaustive": True,
            },
            "assumptions": self.assumptions,
            "wall_s": round(wall, 2),
            "violations": len(viol),
        }
        ev["coverage"].update(self.extra)
        os.makedirs(EVDIR, exist_ok=True)
        with open(os.path.join(EVDIR, self.prop + ".json"), "w") as fh:
            json.dump(ev, fh, indent=1)
        for l in lines:
            print(l)
        print("summary property=%s rules=%d instances=%d known=%d new=%d wall=%.1fs" % (
            self.prop, len(self.rules), ninst, nknown, len(viol), wall))
        for l in vlines:
            print(l)
        return 1 if viol else 0
