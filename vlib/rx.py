"""Exact language comparison of a token regex with a reference automaton (over a finite alphabet of representative characters).

The regex (a constant of the program, taken from the lexer's attributes) is parsed with Python's sre parser, turned into an NFA
by Thompson's construction, and compared with a reference DFA by exploring the product of the subset automaton and the DFA.
The alphabet is the set of characters the regex mentions plus one character it does not mention (all unmentioned characters
behave alike) plus '\\n' (for `.`).  Returns a shortest distinguishing string, or None if the languages are equal."""
import re
try:
    import re._parser as sre_parse
    import re._constants as sre_c
except ImportError:            # older pythons
    import sre_parse
    import sre_constants as sre_c


class NFA:
    def __init__(self):
        self.n = 0
        self.eps = {}
        self.tr = {}        # state -> list of (predicate, target)

    def new(self):
        self.n += 1
        return self.n - 1

    def add_eps(self, a, b):
        self.eps.setdefault(a, set()).add(b)

    def add(self, a, pred, b):
        self.tr.setdefault(a, []).append((pred, b))


def _class_pred(items):
    neg = False
    tests = []
    for op, av in items:
        if op == sre_c.NEGATE:
            neg = True
        elif op == sre_c.LITERAL:
            tests.append(lambda ch, v=av: ord(ch) == v)
        elif op == sre_c.RANGE:
            tests.append(lambda ch, lo=av[0], hi=av[1]: lo <= ord(ch) <= hi)
        elif op == sre_c.CATEGORY:
            cat = {sre_c.CATEGORY_DIGIT: r"\d", sre_c.CATEGORY_NOT_DIGIT: r"\D", sre_c.CATEGORY_SPACE: r"\s", sre_c.CATEGORY_NOT_SPACE: r"\S",
                   sre_c.CATEGORY_WORD: r"\w", sre_c.CATEGORY_NOT_WORD: r"\W"}.get(av)
            if cat is None:
                raise ValueError("category %r" % (av,))
            tests.append(lambda ch, c=re.compile(cat): bool(c.fullmatch(ch)))
        else:
            raise ValueError("class item %r" % (op,))
    return (lambda ch: not any(t(ch) for t in tests)) if neg else (lambda ch: any(t(ch) for t in tests))


def build(nfa, node, start):
    """adds the fragment for `node` (a SubPattern or list of (op, av)) starting at `start`; returns the end state"""
    cur = start
    for op, av in node:
        if op == sre_c.LITERAL:
            nxt = nfa.new()
            nfa.add(cur, (lambda ch, v=av: ord(ch) == v), nxt)
            cur = nxt
        elif op == sre_c.NOT_LITERAL:
            nxt = nfa.new()
            nfa.add(cur, (lambda ch, v=av: ord(ch) != v), nxt)
            cur = nxt
        elif op == sre_c.ANY:
            nxt = nfa.new()
            nfa.add(cur, (lambda ch: ch != "\n"), nxt)
            cur = nxt
        elif op == sre_c.IN:
            nxt = nfa.new()
            nfa.add(cur, _class_pred(av), nxt)
            cur = nxt
        elif op == sre_c.SUBPATTERN:
            cur = build(nfa, av[-1], cur)
        elif op == sre_c.BRANCH:
            end = nfa.new()
            for alt in av[1]:
                s = nfa.new()
                nfa.add_eps(cur, s)
                e = build(nfa, alt, s)
                nfa.add_eps(e, end)
            cur = end
        elif op in (sre_c.MAX_REPEAT, sre_c.MIN_REPEAT):
            lo, hi, sub = av
            for _ in range(lo):
                cur = build(nfa, sub, cur)
            if hi == sre_c.MAXREPEAT:
                s = nfa.new()
                nfa.add_eps(cur, s)
                e = build(nfa, sub, s)
                nfa.add_eps(e, s)
                cur = s
            else:
                end = nfa.new()
                nfa.add_eps(cur, end)
                for _ in range(hi - lo):
                    cur = build(nfa, sub, cur)
                    nfa.add_eps(cur, end)
                cur = end
        elif op == sre_c.AT:
            continue
        else:
            raise ValueError("regex construct %r is not supported" % (op,))
    return cur


def mentioned_chars(node, out):
    for op, av in node:
        if op in (sre_c.LITERAL, sre_c.NOT_LITERAL):
            out.add(chr(av))
        elif op == sre_c.IN:
            for o2, a2 in av:
                if o2 == sre_c.LITERAL:
                    out.add(chr(a2))
                elif o2 == sre_c.RANGE:
                    out.add(chr(a2[0]))
                    out.add(chr(a2[1]))
        elif op == sre_c.SUBPATTERN:
            mentioned_chars(av[-1], out)
        elif op == sre_c.BRANCH:
            for alt in av[1]:
                mentioned_chars(alt, out)
        elif op in (sre_c.MAX_REPEAT, sre_c.MIN_REPEAT):
            mentioned_chars(av[2], out)


def closure(nfa, states):
    st, seen = list(states), set(states)
    while st:
        x = st.pop()
        for y in nfa.eps.get(x, ()):
            if y not in seen:
                seen.add(y)
                st.append(y)
    return frozenset(seen)


def compare(pattern, ref_delta, ref_start, ref_accept, extra_chars=""):
    """ref_delta(state, ch) -> state or None.  Returns (None, alphabet) if equal else (witness string, which side accepts)"""
    tree = sre_parse.parse(pattern)
    nfa = NFA()
    s0 = nfa.new()
    end = build(nfa, tree, s0)
    chars = set(extra_chars)
    mentioned_chars(tree, chars)
    other = next(c for c in "a~#q" if c not in chars)
    alphabet = sorted(chars | {other, "\n"})
    start = (closure(nfa, {s0}), ref_start)
    seen = {start: ""}
    queue = [start]
    while queue:
        cur = queue.pop(0)
        S, q = cur
        w = seen[cur]
        a1 = end in S
        a2 = q is not None and q in ref_accept
        if a1 != a2:
            return (w, "regex" if a1 else "reference"), alphabet
        for ch in alphabet:
            T = set()
            for x in S:
                for pred, y in nfa.tr.get(x, ()):
                    if pred(ch):
                        T.add(y)
            T = closure(nfa, T) if T else frozenset()
            q2 = ref_delta(q, ch) if q is not None else None
            if not T and q2 is None:
                continue
            nxt = (T, q2)
            if nxt not in seen and len(w) < 12:
                seen[nxt] = w + ch
                queue.append(nxt)
    return None, alphabet
