"""Fact extraction (E1 mirfacts driver + forced rustc lint) and the in-memory fact base.

Every check re-derives its facts from /repo's *current working tree*: the cache key is a content
hash over all build inputs under /repo/compiler (sources, manifests, lock file, csv resources), so an
edit of any of them invalidates the cache and the driver is run again.
"""
import fcntl, glob, hashlib, json, os, pickle, re, shutil, subprocess, sys, time, uuid

VERIF = os.path.dirname(os.path.dirname(os.path.abspath(__file__)))
REPO = os.environ.get("VERIF_REPO", "/repo")
WS = os.path.join(REPO, "compiler")
CACHE = os.path.join(VERIF, ".cache")
DRIVER = os.path.join(VERIF, "engines", "mirfacts", "target", "release", "mirfacts")

MEMBERS = ["ironplc_dsl", "ironplc_parser", "ironplc_analyzer", "ironplc_plc2plc", "ironplcc",
           "ironplc_problems", "dsl_macro_derive", "ironplc_test", "build_script_build"]
PRODUCT = ["ironplc_dsl", "ironplc_parser", "ironplc_analyzer", "ironplc_plc2plc", "ironplcc", "ironplc_problems"]


def tree_hash(extra=""):
    h = hashlib.sha256()
    h.update(extra.encode())
    paths = []
    for root, dirs, files in os.walk(WS):
        dirs[:] = sorted(d for d in dirs if d not in ("target", ".git", "node_modules"))
        for f in sorted(files):
            if f.endswith((".rs", ".toml", ".lock", ".csv")):
                paths.append(os.path.join(root, f))
    for p in paths:
        h.update(os.path.relpath(p, WS).encode())
        h.update(b"\0")
        with open(p, "rb") as fh:
            h.update(fh.read())
        h.update(b"\0")
    # the driver itself is part of the key
    for p in (os.path.join(VERIF, "engines", "mirfacts", "src", "main.rs"),):
        with open(p, "rb") as fh:
            h.update(fh.read())
    return h.hexdigest()[:24]


def nightly_sysroot():
    return subprocess.check_output(["rustc", "+nightly", "--print", "sysroot"], text=True).strip()


def ensure_driver():
    if not os.path.exists(DRIVER) or os.path.getmtime(DRIVER) < os.path.getmtime(
            os.path.join(VERIF, "engines", "mirfacts", "src", "main.rs")):
        env = dict(os.environ, CARGO_NET_OFFLINE="true")
        subprocess.check_call(["cargo", "build", "--release", "--offline"],
                              cwd=os.path.join(VERIF, "engines", "mirfacts"), env=env,
                              stdout=subprocess.DEVNULL, stderr=subprocess.DEVNULL)


def _run_driver(outdir, features=None):
    """Run `cargo +nightly check --workspace` with the driver as workspace wrapper.
    Returns (list of rustc diagnostics as dicts, wall seconds)."""
    ensure_driver()
    # VERIF_FACTS_LANE: maintenance runs that analyse many trees (tools_seeds.py --lanes) extract in parallel, one cargo target directory per lane
    lane = os.environ.get("VERIF_FACTS_LANE", "")
    target = os.path.join(CACHE, "target" + ("-" + features.replace("/", "_") if features else "") + ("-lane" + lane if lane else ""))
    os.makedirs(target, exist_ok=True)
    # cargo's freshness cache would skip the wrapper for unchanged members: drop their fingerprints
    for fp in glob.glob(os.path.join(target, "debug", ".fingerprint", "*")):
        base = os.path.basename(fp)
        if re.match(r"(ironplc|ironplcc|dsl_macro_derive|dsl-macro-derive)", base):
            shutil.rmtree(fp, ignore_errors=True)
    nonce = uuid.uuid4().hex
    env = dict(os.environ)
    env.update({
        "CARGO_NET_OFFLINE": "true",
        "LD_LIBRARY_PATH": nightly_sysroot() + "/lib",
        "MIRFACTS_OUT": outdir,
        "MIRFACTS_NONCE": nonce,
        "RUSTFLAGS": "-Zmir-opt-level=0 -Awarnings --force-warn unused_variables",
        "RUSTC_WORKSPACE_WRAPPER": DRIVER,
        "CARGO_TARGET_DIR": target,
    })
    env.pop("RUSTC_WRAPPER", None)
    cmd = ["cargo", "+nightly", "check", "--offline", "--workspace", "--message-format=json"]
    if features:
        cmd += ["--features", features]
    t0 = time.time()
    p = subprocess.run(cmd, cwd=WS, env=env, stdout=subprocess.PIPE, stderr=subprocess.PIPE, text=True)
    wall = time.time() - t0
    diags = []
    for line in p.stdout.splitlines():
        if not line.startswith("{"):
            continue
        try:
            m = json.loads(line)
        except ValueError:
            continue
        if m.get("reason") == "compiler-message":
            diags.append({"target": m.get("target", {}).get("name"), "message": m["message"]})
    if p.returncode != 0:
        errs = [d["message"].get("rendered", "") for d in diags if d["message"].get("level") == "error"]
        raise SystemExit("ERROR: /repo does not build under `cargo +nightly check --workspace` "
                         "(fact extraction impossible; this is not a property verdict)\n" +
                         "\n".join(errs[:5]) + p.stderr[-3000:])
    return diags, wall, nonce


def extract(features=None, force=False):
    """Return path of a directory with this tree's fact files (extracting if needed)."""
    os.makedirs(CACHE, exist_ok=True)
    # the driver's own source is part of the key: a changed extractor never reuses facts written by an older one
    with open(os.path.join(VERIF, "engines", "mirfacts", "src", "main.rs"), "rb") as fh:
        drv = hashlib.sha256(fh.read()).hexdigest()[:12]
    key = tree_hash((features or "") + drv)
    d = os.path.join(CACHE, "facts-" + key)
    lock = open(os.path.join(CACHE, "lock" + os.environ.get("VERIF_FACTS_LANE", "")), "w")
    fcntl.flock(lock, fcntl.LOCK_EX)
    try:
        if os.path.exists(os.path.join(d, "DONE")) and not force:
            return d
        shutil.rmtree(d, ignore_errors=True)
        tmp = d + ".tmp"
        shutil.rmtree(tmp, ignore_errors=True)
        os.makedirs(tmp)
        diags, wall, nonce = _run_driver(tmp, features)
        # fail closed: every product crate must have produced a fact file with this run's nonce
        seen = {}
        for f in glob.glob(os.path.join(tmp, "*.jsonl")):
            with open(f) as fh:
                head = json.loads(fh.readline())
            if head.get("nonce") != nonce:
                raise SystemExit("ERROR: stale fact file " + f)
            seen.setdefault(head["crate"], []).append(f)
        missing = [c for c in PRODUCT if c not in seen]
        if missing:
            raise SystemExit("ERROR: driver produced no facts for crates %s (cargo skipped the wrapper?)" % missing)
        with open(os.path.join(tmp, "diags.json"), "w") as fh:
            json.dump(diags, fh)
        with open(os.path.join(tmp, "meta.json"), "w") as fh:
            json.dump({"wall_s": wall, "nonce": nonce, "key": key, "features": features,
                       "files": {c: [os.path.basename(x) for x in v] for c, v in seen.items()}}, fh)
        open(os.path.join(tmp, "DONE"), "w").close()
        os.rename(tmp, d)
        # keep the cache small: drop fact dirs other than the newest four
        olds = sorted(glob.glob(os.path.join(CACHE, "facts-*")), key=os.path.getmtime)
        for o in olds[:-400]:
            shutil.rmtree(o, ignore_errors=True)
        return d
    finally:
        fcntl.flock(lock, fcntl.LOCK_UN)
        lock.close()


class Facts:
    """In-memory fact base: functions (with structured MIR), ADTs, consts, rustc diagnostics."""

    def __init__(self, d):
        self.dir = d
        self.meta = json.load(open(os.path.join(d, "meta.json")))
        self.diags = json.load(open(os.path.join(d, "diags.json")))
        pk = os.path.join(d, "facts.pickle")
        if os.path.exists(pk):
            with open(pk, "rb") as fh:
                self.fns, self.adts, self.consts, self.crates, self.astattrs = pickle.load(fh)
        else:
            self.fns, self.adts, self.consts, self.crates, self.astattrs = {}, {}, {}, {}, {}
            for f in sorted(glob.glob(os.path.join(d, "*.jsonl"))):
                with open(f) as fh:
                    head = json.loads(fh.readline())
                    crate = head["crate"]
                    # ironplcc is compiled twice (lib + bin): keep both, bin items get their own ids
                    self.crates.setdefault(crate, []).append(os.path.basename(f))
                    for line in fh:
                        r = json.loads(line)
                        k = r["k"]
                        if k == "fn":
                            if r["id"] in self.fns and crate == "dsl_macro_derive":
                                continue
                            self.fns[r["id"]] = r
                        elif k == "adt":
                            self.adts[r["id"]] = r
                        elif k == "const":
                            self.consts[r["id"]] = r
                        elif k == "astattrs":
                            self.astattrs[r["id"]] = r
            tmp = "%s.%d.tmp" % (pk, os.getpid())      # concurrent checks may build the same pickle
            with open(tmp, "wb") as fh:
                pickle.dump((self.fns, self.adts, self.consts, self.crates, self.astattrs), fh, protocol=4)
            os.replace(tmp, pk)
        self.by_name = {}
        for k, f in self.fns.items():
            self.by_name.setdefault(f["name"], []).append(f)
        self.closures = {}
        for k, f in self.fns.items():
            if f["dk"] == "Closure" and f["parent"]:
                self.closures.setdefault(f["parent"], []).append(f)

    # -- lookup helpers ---------------------------------------------------------------------
    def fn(self, fid):
        return self.fns.get(fid)

    def find(self, pattern, crate=None):
        """functions whose id matches the regex (search)"""
        rx = re.compile(pattern)
        return [f for k, f in self.fns.items() if rx.search(k) and (crate is None or f["crate"] == crate)]

    def one(self, pattern, crate=None):
        r = self.find(pattern, crate)
        if len(r) != 1:
            raise AnchorMissing("anchor %r matched %d functions%s" % (pattern, len(r),
                                "" if not r else ": " + ", ".join(x["id"] for x in r[:5])))
        return r[0]

    def with_closures(self, f):
        out = [f]
        for c in self.closures.get(f["id"], []):
            out.append(c)
        return out

    def product_fns(self):
        return [f for f in self.fns.values() if f["crate"] in PRODUCT]


class AnchorMissing(Exception):
    pass


def load(features=None):
    return Facts(extract(features))


class use_repo:
    """context manager: point fact extraction (and everything that reads vlib.facts.REPO/WS) at another checkout"""

    def __init__(self, repo):
        self.repo = repo

    def __enter__(self):
        global REPO, WS
        self.old = (REPO, WS)
        REPO = self.repo
        WS = os.path.join(self.repo, "compiler")
        return self

    def __exit__(self, *a):
        global REPO, WS
        REPO, WS = self.old


if __name__ == "__main__":
    t = time.time()
    d = extract(force="--force" in sys.argv)
    f = Facts(d)
    print(d, len(f.fns), "fns", len(f.adts), "adts", "%.1fs" % (time.time() - t))
