"""Traversal graphs of the DSL: what a Visitor / Fold implementation actually reaches, derived from MIR.

kind = 'visit' : trait ironplc_dsl::visitor::Visitor, methods visit_*, per-type recursion T::recurse_visit
kind = 'fold'  : trait ironplc_dsl::fold::Fold,       methods fold_*,  per-type recursion T::recurse_fold
"""
import re
from vlib.mir import norm

CFG = {
    "visit": ("ironplc_dsl::visitor::Visitor", "visit_", "recurse_visit"),
    "fold": ("ironplc_dsl::fold::Fold", "fold_", "recurse_fold"),
}


def snake(name):
    s = re.sub(r"(?<=[a-z0-9])(?=[A-Z])|(?<=[A-Z])(?=[A-Z][a-z])", "_", name)
    return s.lower()


class Traversal:
    def __init__(self, ctx, kind="visit"):
        self.ctx = ctx
        self.kind = kind
        self.trait, self.prefix, self.rec = CFG[kind]
        prog = ctx.prog
        # default bodies of trait methods
        self.default = {}    # method -> list of successor nodes
        self.recurse = {}    # type path -> list of successor nodes
        for fid, b in prog.bodies.items():
            n = norm(fid)
            if n.startswith(self.trait + "::" + self.prefix) and b.f["dk"] == "AssocFn" and (b.f.get("impl") or {}).get("default"):
                self.default[b.f["name"]] = self.edges_of(b)
            elif n.endswith("::" + self.rec) and b.f["crate"] == "ironplc_dsl":
                self.recurse[n[:-len("::" + self.rec)]] = self.edges_of(b)
        # type of each method (from the default body's recursion call or the name)
        self.method_type = {}
        for m, es in self.default.items():
            for e in es:
                if e[0] == "rv":
                    self.method_type[m] = e[1]
        # snake name -> type path for all DSL ADTs
        self.by_snake = {}
        for aid, a in ctx.facts.adts.items():
            if a["crate"] == "ironplc_dsl":
                self.by_snake.setdefault(self.prefix + snake(aid.split("::")[-1]), aid)
        for m in self.default:
            if m not in self.method_type and m in self.by_snake:
                self.method_type[m] = self.by_snake[m]

    def edges_of(self, b):
        out = []
        for c in b.calls():
            cal = c.callee or ""
            u = c.u or ""
            if cal.endswith("::" + self.rec):
                out.append(("rv", cal[:-len("::" + self.rec)]))
            elif u.startswith(self.trait + "::" + self.prefix):
                out.append(("v", u.split("::")[-1]))
            elif cal.split("::")[-1].startswith(self.prefix) and ("as " + self.trait) in cal:
                out.append(("v", cal.split("::")[-1]))
            elif u == self.trait + "::walk" or cal.endswith(self.trait + "::walk"):
                out.append(("rv", "ironplc_dsl::common::Library"))
        # closures created in the body (e.g. iterators mapping children) belong to it
        for cb in self.ctx.prog.bodies.values():
            if cb.f["dk"] == "Closure" and cb.f.get("parent") == b.id:
                out += self.edges_of(cb)
        return out

    # ---- implementations ------------------------------------------------------------------
    def impls(self, crates):
        """{self type: {method: Body}} for impls of the trait in the given crates"""
        out = {}
        for fid, b in self.ctx.prog.bodies.items():
            im = b.f.get("impl")
            if b.f["crate"] in crates and im and im.get("trait_def") == self.trait and not im.get("default") and b.f["name"].startswith(self.prefix):
                out.setdefault(im["self"], {})[b.f["name"]] = b
        return out

    def succ(self, node, overrides):
        k, x = node
        if k == "v":
            if x in overrides:
                return self.edges_of(overrides[x])
            return self.default.get(x, [])
        return self.recurse.get(x, [])

    def reach(self, start, overrides, stop_at_overrides=False):
        seen = set()
        st = list(start)
        while st:
            n = st.pop()
            if n in seen:
                continue
            seen.add(n)
            st.extend(self.succ(n, overrides))
        return seen

    def default_reach_from_type(self, ty):
        """methods reachable below T in the pure default traversal (no overrides)"""
        return {x for k, x in self.reach([("rv", ty)], {}) if k == "v"}

    # ---- containment (type definitions) ---------------------------------------------------
    def containment(self):
        """type path -> set of DSL type paths mentioned by its fields"""
        out = {}
        dsl = {aid for aid, a in self.ctx.facts.adts.items() if a["crate"] == "ironplc_dsl"}
        for aid in dsl:
            a = self.ctx.facts.adts[aid]
            s = set()
            for v in a["variants"]:
                for fl in v["fields"]:
                    for m in re.finditer(r"ironplc_dsl::[A-Za-z_:]*[A-Za-z_]", fl["ty"]):
                        if m.group(0) in dsl:
                            s.add(m.group(0))
            out[aid] = s
        return out
