"""E2 pegfacts: reader for the rust-peg grammar inside `peg::parser!{ grammar plc_parser ... }`.

rustc only sees the macro's expansion, so grammar *shape* (labels, unlabeled elements, trivia positions, precedence
tiers) is read here from the macro input.  Fail closed: the reader must consume the whole macro body and find exactly
the rule names rustc sees as `plc_parser::__parse_<name>` functions.
"""
import os, re
from vlib import facts as _facts


class Tok:
    __slots__ = ("k", "v", "line", "col", "pos")

    def __init__(self, k, v, line, col, pos):
        self.k, self.v, self.line, self.col, self.pos = k, v, line, col, pos

    def __repr__(self):
        return "%s(%r@%d)" % (self.k, self.v, self.line)


PUNCT3 = ("..=", "...", "<<=", ">>=")
PUNCT2 = ("->", "=>", "**", "++", "--", "::", "==", "!=", "<=", ">=", "&&", "||", "..", "+=", "-=", "*=", "/=", "<<", ">>", "##")


def tokenize(src, base_line=1):
    toks = []
    i, n = 0, len(src)
    line, col = base_line, 1

    def adv(k):
        nonlocal i, line, col
        for _ in range(k):
            if src[i] == "\n":
                line += 1
                col = 1
            else:
                col += 1
            i += 1

    while i < n:
        c = src[i]
        if c in " \t\r\n":
            adv(1)
            continue
        if src.startswith("//", i):
            while i < n and src[i] != "\n":
                adv(1)
            continue
        if src.startswith("/*", i):
            depth = 0
            while i < n:
                if src.startswith("/*", i):
                    depth += 1
                    adv(2)
                elif src.startswith("*/", i):
                    depth -= 1
                    adv(2)
                    if depth == 0:
                        break
                else:
                    adv(1)
            continue
        l0, c0, p0 = line, col, i
        m = re.match(r'r(#*)"', src[i:])
        if m:
            hashes = m.group(1)
            end = src.index('"' + hashes, i + len(m.group(0)))
            k = end + 1 + len(hashes) - i
            text = src[i:i + k]
            adv(k)
            toks.append(Tok("str", text, l0, c0, p0))
            continue
        if c == '"' or (c == "b" and src.startswith('b"', i)):
            j = i + (2 if c == "b" else 1)
            while src[j] != '"':
                j += 2 if src[j] == "\\" else 1
            text = src[i:j + 1]
            adv(j + 1 - i)
            toks.append(Tok("str", text, l0, c0, p0))
            continue
        if c == "'":
            # char literal or lifetime
            m = re.match(r"'(\\.[^']*|[^'\\])'", src[i:])
            if m:
                adv(len(m.group(0)))
                toks.append(Tok("char", m.group(0), l0, c0, p0))
                continue
            m = re.match(r"'[A-Za-z_][A-Za-z0-9_]*", src[i:])
            if m:
                adv(len(m.group(0)))
                toks.append(Tok("life", m.group(0), l0, c0, p0))
                continue
        m = re.match(r"[A-Za-z_][A-Za-z0-9_]*", src[i:])
        if m:
            adv(len(m.group(0)))
            toks.append(Tok("id", m.group(0), l0, c0, p0))
            continue
        m = re.match(r"[0-9][0-9A-Za-z_]*(\.[0-9][0-9A-Za-z_]*)?", src[i:])
        if m:
            adv(len(m.group(0)))
            toks.append(Tok("num", m.group(0), l0, c0, p0))
            continue
        for p in PUNCT3 + PUNCT2:
            if src.startswith(p, i):
                adv(len(p))
                toks.append(Tok("p", p, l0, c0, p0))
                break
        else:
            adv(1)
            toks.append(Tok("p", c, l0, c0, p0))
    return toks


# ---- AST ------------------------------------------------------------------------------------------
class Rule:
    def __init__(self, name, params, generics, ret, expr, line, pub):
        self.name, self.params, self.generics, self.ret, self.expr, self.line, self.pub = name, params, generics, ret, expr, line, pub


class Choice:
    kind = "choice"

    def __init__(self, alts):
        self.alts = alts


class Seq:
    kind = "seq"

    def __init__(self, elems, action, line):
        self.elems, self.action, self.line = elems, action, line


class Action:
    def __init__(self, code, fallible, line, endline):
        self.code, self.fallible, self.line, self.endline = code, fallible, line, endline


class Elem:
    def __init__(self, label, look, prim, rep, sep, line, col):
        self.label, self.look, self.prim, self.rep, self.sep, self.line, self.col = label, look, prim, rep, sep, line, col

    def __repr__(self):
        return "%s%s%s%s" % ((self.label + ":") if self.label else "", self.look or "", self.prim, self.rep or "")


class Prim:
    def __init__(self, kind, **kw):
        self.kind = kind
        self.__dict__.update(kw)

    def __repr__(self):
        if self.kind == "call":
            return "%s(%s)" % (self.name, ",".join(a[1] if a[0] == "rust" else "<..>" for a in self.args))
        if self.kind == "group":
            return "(..)"
        return self.kind


class ParseError(Exception):
    pass


class Reader:
    def __init__(self, toks):
        self.t = toks
        self.i = 0

    def peek(self, k=0):
        return self.t[self.i + k] if self.i + k < len(self.t) else None

    def at(self, v, k=0):
        t = self.peek(k)
        return t is not None and t.v == v and t.k in ("p", "id")

    def eat(self, v=None):
        t = self.peek()
        if t is None or (v is not None and t.v != v):
            raise ParseError("expected %r, found %r" % (v, t))
        self.i += 1
        return t

    def balanced(self, open_, close):
        """consume a balanced group starting at the current `open_`; returns list of tokens inside"""
        self.eat(open_)
        depth = 1
        start = self.i
        while True:
            t = self.peek()
            if t is None:
                raise ParseError("unbalanced %s" % open_)
            if t.k == "p" and t.v in "([{" and len(t.v) == 1:
                depth += 1
            elif t.k == "p" and t.v in ")]}" and len(t.v) == 1:
                depth -= 1
                if depth == 0:
                    inner = self.t[start:self.i]
                    self.i += 1
                    return inner
            self.i += 1

    # ---- grammar --------------------------------------------------------------------------
    def rule_start(self, k=0):
        j = k
        t = self.peek(j)
        if t is not None and t.k == "id" and t.v == "pub":
            j += 1
            if self.at("(", j):   # pub(crate)
                while not self.at(")", j):
                    j += 1
                j += 1
        t = self.peek(j)
        if t is None or t.k != "id" or t.v != "rule":
            return False
        n = self.peek(j + 1)
        a = self.peek(j + 2)
        return n is not None and n.k == "id" and a is not None and a.v in ("(", "<", "->", "=")

    def parse_rules(self):
        rules = []
        while self.peek() is not None:
            # attributes
            attrs = []
            while self.at("#"):
                self.eat("#")
                attrs.append("".join(x.v for x in self.balanced("[", "]")))
            t = self.peek()
            if t is None:
                break
            if t.k == "id" and t.v == "use":
                while not self.at(";"):
                    self.i += 1
                self.eat(";")
                continue
            if not self.rule_start():
                raise ParseError("expected a rule at line %d, found %r" % (t.line, t))
            pub = False
            if self.at("pub"):
                pub = True
                self.eat()
                if self.at("("):
                    self.balanced("(", ")")
            self.eat("rule")
            name = self.eat()
            generics = None
            if self.at("<"):
                generics = self.angle()
            params = []
            if self.at("("):
                params = self.balanced("(", ")")
            ret = []
            if self.at("->"):
                self.eat("->")
                depth = 0
                while True:
                    t = self.peek()
                    if t.v == "=" and depth == 0 and t.k == "p":
                        break
                    if t.k == "p" and t.v in ("<", "(", "["):
                        depth += 1
                    elif t.k == "p" and t.v in (">", ")", "]"):
                        depth -= 1
                    ret.append(t)
                    self.i += 1
            self.eat("=")
            expr = self.parse_choice(stop_at_rule=True)
            rules.append(Rule(name.v, params, generics, " ".join(x.v for x in ret), expr, name.line, pub))
            rules[-1].attrs = attrs
        return rules

    def angle(self):
        self.eat("<")
        depth = 1
        start = self.i
        while depth:
            t = self.eat()
            if t.k == "p" and t.v == "<":
                depth += 1
            elif t.k == "p" and t.v == ">":
                depth -= 1
            elif t.k == "p" and t.v == ">>":
                depth -= 2
        return self.t[start:self.i - 1]

    def parse_choice(self, stop_at_rule=False, closers=()):
        alts = [self.parse_seq(stop_at_rule, closers)]
        while self.at("/"):
            self.eat("/")
            alts.append(self.parse_seq(stop_at_rule, closers))
        return Choice(alts)

    def seq_end(self, stop_at_rule, closers):
        t = self.peek()
        if t is None:
            return True
        if t.k == "p" and (t.v == "/" or t.v in closers or t.v == "--"):
            return True
        if stop_at_rule and (self.rule_start() or (t.k == "p" and t.v == "#") or (t.k == "id" and t.v == "use")):
            return True
        return False

    def parse_seq(self, stop_at_rule, closers, in_prec=False):
        elems = []
        line = self.peek().line if self.peek() else 0
        action = None
        while not self.seq_end(stop_at_rule, closers):
            t = self.peek()
            if t.k == "p" and t.v == "{":
                l0 = t.line
                inner = self.balanced("{", "}")
                endl = self.t[self.i - 1].line
                fall = bool(inner) and inner[0].k == "p" and inner[0].v == "?"
                action = Action(inner, fall, l0, endl)
                action.col, action.endcol = t.col, self.t[self.i - 1].col
                break
            elems.append(self.parse_elem())
        return Seq(elems, action, line)

    def parse_elem(self):
        t0 = self.peek()
        label = None
        if t0.k == "id" and self.at(":", 1) and not self.at("::", 1):
            label = t0.v
            self.i += 2
        look = None
        if self.at("&") or self.at("!"):
            look = self.eat().v
        if self.at("$"):
            self.eat("$")
        prim = self.parse_prim()
        rep, sep = None, None
        while True:
            t = self.peek()
            if t is None or t.k != "p":
                break
            if t.v in ("*", "+", "?"):
                rep = self.eat().v
                if self.at("<") and rep in ("*", "+"):
                    self.angle()
                continue
            if t.v in ("**", "++"):
                rep = self.eat().v
                if self.at("<"):
                    self.angle()
                sep = self.parse_prim()
                continue
            break
        return Elem(label, look, prim, rep, sep, t0.line, t0.col)

    def parse_prim(self):
        t = self.peek()
        if t is None:
            raise ParseError("unexpected end")
        if t.k == "p" and t.v == "(":
            inner = self.balanced("(", ")")
            if len(inner) == 1 and inner[0].v == "@":
                return Prim("at", paren=True, line=t.line)
            if not inner:
                return Prim("empty", line=t.line)
            sub = Reader(inner)
            e = sub.parse_choice()
            if sub.peek() is not None:
                raise ParseError("trailing tokens in group at line %d: %r" % (t.line, sub.peek()))
            return Prim("group", expr=e, line=t.line)
        if t.k == "p" and t.v == "@":
            self.eat()
            return Prim("at", paren=False, line=t.line)
        if t.k == "p" and t.v == "[":
            inner = self.balanced("[", "]")
            return Prim("pattern", text=" ".join(x.v for x in inner), toks=inner, line=t.line)
        if t.k == "str":
            self.eat()
            return Prim("literal", text=t.v, line=t.line)
        if t.k == "p" and t.v == "##":
            self.eat()
            name = self.eat()
            args = self.balanced("(", ")")
            return Prim("method", name=name.v, line=t.line)
        if t.k == "id":
            name = self.eat()
            if self.at("!") and name.v in ("position", "precedence", "quiet", "expected"):
                self.eat("!")
                if name.v == "position":
                    self.balanced("(", ")")
                    return Prim("position", line=t.line)
                if name.v == "precedence":
                    inner = self.balanced("{", "}")
                    sub = Reader(inner)
                    levels = [[]]
                    while sub.peek() is not None:
                        if sub.at("--"):
                            sub.eat()
                            levels.append([])
                            continue
                        s = sub.parse_seq(False, (), in_prec=True)
                        if s.action is None and not s.elems:
                            raise ParseError("empty precedence arm at line %d" % t.line)
                        levels[-1].append(s)
                    return Prim("prec", levels=levels, line=t.line)
                if name.v in ("quiet", "expected"):
                    if self.at("{"):
                        inner = self.balanced("{", "}")
                        sub = Reader(inner)
                        return Prim("group", expr=sub.parse_choice(), line=t.line)
                    self.balanced("(", ")")
                    return Prim("empty", line=t.line)
                raise ParseError("unknown macro %s! at line %d" % (name.v, t.line))
            args = []
            if self.at("("):
                inner = self.balanced("(", ")")
                # split top-level commas
                parts, cur, depth = [], [], 0
                for x in inner:
                    if x.k == "p" and x.v in ("(", "[", "{"):
                        depth += 1
                    elif x.k == "p" and x.v in (")", "]", "}"):
                        depth -= 1
                    if x.k == "p" and x.v == "," and depth == 0:
                        parts.append(cur)
                        cur = []
                    else:
                        cur.append(x)
                if cur:
                    parts.append(cur)
                for p in parts:
                    if p and p[0].k == "p" and p[0].v == "<" and p[-1].v in (">",):
                        sub = Reader(p[1:-1])
                        e = sub.parse_choice()
                        if sub.peek() is not None:
                            raise ParseError("trailing tokens in rule argument at line %d" % t.line)
                        args.append(("rule", e))
                    else:
                        args.append(("rust", "".join(x.v for x in p)))
            return Prim("call", name=name.v, args=args, line=t.line, col=t.col)
        raise ParseError("unexpected token %r at line %d" % (t, t.line))


class Grammar:
    def __init__(self, rules, file, first_line):
        self.rules = {r.name: r for r in rules}
        self.order = [r.name for r in rules]
        self.file = file
        self.first_line = first_line
        self._nullable = None

    # ---- classification helpers ---------------------------------------------------------------
    @staticmethod
    def terminal(prim):
        """('tok', 'Comma') / ('id_eq', 'E') / ('dt_sep','ms') / ('tok_eq',..) / ('any', cond) or None"""
        if prim.kind == "pattern":
            return ("any", prim.text)
        if prim.kind == "call" and prim.name in ("tok", "id_eq", "dt_sep", "tok_eq"):
            a = [x[1] for x in prim.args if x[0] == "rust"]
            if prim.name == "tok" and a:
                return ("tok", a[0].replace("TokenType::", ""))
            if a:
                return (prim.name, ",".join(a).strip('"'))
        return None

    def walk_elems(self, node, fn, ctx=None):
        """call fn(elem, seq, ctx) for every element, recursing into groups, rule-arguments and precedence arms"""
        if node.kind == "choice":
            for s in node.alts:
                self.walk_elems(s, fn, ctx)
        elif node.kind == "seq":
            for e in node.elems:
                fn(e, node, ctx)
                for p in (e.prim, e.sep):
                    if p is None:
                        continue
                    if p.kind == "group":
                        self.walk_elems(p.expr, fn, ctx)
                    elif p.kind == "call":
                        for a in p.args:
                            if a[0] == "rule":
                                self.walk_elems(a[1], fn, ctx)
                    elif p.kind == "prec":
                        for lvl in p.levels:
                            for s in lvl:
                                self.walk_elems(s, fn, ctx)

    def all_seqs(self):
        out = []

        def rec(node, rule):
            if node.kind == "choice":
                for s in node.alts:
                    rec(s, rule)
            else:
                out.append((rule, node))
                for e in node.elems:
                    for p in (e.prim, e.sep):
                        if p is None:
                            continue
                        if p.kind == "group":
                            rec(p.expr, rule)
                        elif p.kind == "call":
                            for a in p.args:
                                if a[0] == "rule":
                                    rec(a[1], rule)
                        elif p.kind == "prec":
                            for lvl in p.levels:
                                for s in lvl:
                                    rec(s, rule)
        for r in self.rules.values():
            rec(r.expr, r)
        return out


def load(ctx=None):
    path = os.path.join(_facts.WS, "parser", "src", "parser.rs")
    src = open(path).read()
    m = re.search(r"^parser!\s*\{", src, re.M)
    if not m:
        raise ParseError("parser! macro not found in parser.rs")
    start = m.end()
    base_line = src.count("\n", 0, start) + 1
    toks = tokenize(src[start:], base_line)
    # the macro body ends at the brace matching `parser! {`
    depth = 1
    end = None
    for i, t in enumerate(toks):
        if t.k == "p" and t.v == "{":
            depth += 1
        elif t.k == "p" and t.v == "}":
            depth -= 1
            if depth == 0:
                end = i
                break
    if end is None:
        raise ParseError("unbalanced parser! body")
    rest = [t for t in toks[end + 1:] if not (t.k == "p" and t.v == ";")]
    body = toks[:end]
    # grammar NAME<'a>() for TYPE { ... }
    r = Reader(body)
    r.eat("grammar")
    gname = r.eat().v
    if r.at("<"):
        r.angle()
    r.balanced("(", ")")
    r.eat("for")
    while not r.at("{"):
        r.i += 1
    inner = r.balanced("{", "}")
    if r.peek() is not None:
        raise ParseError("tokens after the grammar block")
    rr = Reader(inner)
    rules = rr.parse_rules()
    g = Grammar(rules, "parser/src/parser.rs", base_line)
    g.name = gname
    g.trailing_tokens = len(rest)
    if ctx is not None:
        # cross-check with rustc's view of the expansion
        seen = set()
        pre = "ironplc_parser::parser::%s::__parse_" % gname
        for fid in ctx.facts.fns:
            from vlib.mir import norm
            n = norm(fid)
            if n.startswith(pre) and "::" not in n[len(pre):]:
                seen.add(n[len(pre):])
        mine = set(g.rules)
        if seen != mine:
            raise ParseError("grammar reader and rustc disagree on the rule set: only-reader=%s only-rustc=%s" % (
                sorted(mine - seen)[:8], sorted(seen - mine)[:8]))
    return g


if __name__ == "__main__":
    g = load()
    print(len(g.rules), "rules")
    nl = na = nf = 0

    def f(e, s, c):
        global nl
        if e.label:
            nl += 1
    for r in g.rules.values():
        g.walk_elems(r.expr, f)
    for rule, s in g.all_seqs():
        if s.action:
            na += 1
            nf += 1 if s.action.fallible else 0
    print(nl, "labels", na, "actions", nf, "fallible")
    ex = g.rules["expression"].expr.alts[0].elems
    for e in ex:
        if e.prim.kind == "prec":
            print("precedence tiers:", [len(l) for l in e.prim.levels])
