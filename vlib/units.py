"""A function together with its closures ("unit"), and a forward may-flow over it.

Why: `for x in xs { acc.extend(f(x)) }`, `xs.iter().fold(..)`, `xs.into_iter().filter_map(|x| f(x).err()).flatten().collect()` are the same
computation written three ways.  A rule about *what happens* (the table entry is called; what it returns reaches the result; the merge
happens before the first transform) must not depend on which way was chosen.  Rules that want that ask for

  closures(ctx, b)         the closure bodies created in `b` (recursively), each with the call of `b` that receives it (its host) and the
                           call that finally consumes a lazy adaptor chain (map/filter/... run when collect/extend/fold/for-loop pulls)
  calls_in_unit(ctx, b)    every call of `b` and its closures as (body, call, site in b) - `site` is the call itself or the closure's consumer
  flows(ctx, b, seeds)     locals of `b` that may hold (part of) a value that started in `seeds`: through moves, borrows, aggregates, calls
                           (an argument taints the result and every `&mut` argument), and closures whose own result is tainted by
                           their own seeds.  May-flow: an over-approximation, so "does not flow" is a sound finding and a refactoring
                           cannot make a flow disappear.
"""
from vlib.mir import norm, op_place

LAZY = {"map", "filter", "filter_map", "flat_map", "flatten", "chain", "zip", "enumerate", "peekable", "skip", "take", "skip_while", "take_while",
        "map_while", "inspect", "cloned", "copied", "rev", "into_iter", "iter", "iter_mut", "by_ref", "fuse", "step_by", "scan"}
SHORT_CIRCUIT = {"try_fold", "try_for_each", "find", "find_map", "any", "all", "position", "take_while", "map_while", "skip_while", "take", "skip",
                 "filter", "step_by", "nth", "next", "last"}


def _cname(c):
    return (c.callee or c.u or "").split("::")[-1]


def closures(ctx, b, _depth=0):
    """[(closure body, host call in b | None, consumer call in b | None, chain of adaptor names from host to consumer)]"""
    out = []
    for i, j, s in b.all_stmts():
        if not (s[0] == "=" and s[2][0] == "agg" and s[2][1].get("k") == "closure"):
            continue
        cls = ctx.prog.get(norm(s[2][1]["def"]))
        if not cls:
            continue
        cl = cls[0]
        loc = s[1][0]
        host = None
        for c in b.calls():
            for a in c.args:
                p = op_place(a)
                if p is not None and (p[0] == loc or (b.root(p)[0] == loc)):
                    host = c
        consumer, chain = host, []
        if host is not None:
            chain = [_cname(host)]
            cur = host
            for _ in range(8):
                if _cname(cur) not in LAZY:
                    break
                nxt = None
                for c in b.calls():
                    if c is cur:
                        continue
                    for a in c.args:
                        p = op_place(a)
                        if p is not None and b.root(p)[0] == cur.dest[0]:
                            nxt = c
                    if nxt:
                        break
                if nxt is None:
                    # moved into a local first (`let it = ..; for x in it`)
                    break
                cur = nxt
                chain.append(_cname(cur))
            consumer = cur
        out.append((cl, host, consumer, chain))
        if _depth < 2:
            for x in closures(ctx, cl, _depth + 1):
                out.append((x[0], host, consumer, chain))
    return out


def calls_in_unit(ctx, b):
    out = [(b, c, c) for c in b.calls()]
    for cl, host, consumer, chain in closures(ctx, b):
        for c in cl.calls():
            out.append((cl, c, consumer))
    return out


def forward(b, seeds, closure_taints=None):
    """locals of b that may hold data from the seed locals.  closure_taints: {closure local in b: True} for closures whose result carries
    the interesting value (a call that receives such a closure has a tainted result)."""
    taint = set(seeds)
    closure_taints = closure_taints or {}

    def tp(p):
        return p is not None and (p[0] in taint or any(isinstance(x, list) and x and x[0] == "i" and x[1] in taint for x in p[1]))

    def to(o):
        return bool(o) and o[0] in ("cp", "mv") and tp(o[1])

    def referent(o):
        """the local a `&mut` operand points into (through reborrows)"""
        p = op_place(o)
        for _ in range(4):
            if p is None:
                return None
            d = b.single_def(p[0]) if not [x for x in p[1] if x != "*"] else None
            if d and d[0] == "stmt" and d[3][0] in ("ref", "ptr"):
                p = d[3][2]
                if "*" not in p[1]:
                    return p[0]
                continue
            if d and d[0] == "stmt" and d[3][0] == "use" and d[3][1][0] in ("cp", "mv"):
                p = d[3][1][1]
                continue
            return p[0]
        return p[0] if p is not None else None
    changed = True
    while changed:
        changed = False
        for i, j, s in b.all_stmts():
            if s[0] != "=":
                continue
            rv = s[2]
            src = False
            if rv[0] in ("use", "rep"):
                src = to(rv[1])
            elif rv[0] == "cast":
                src = to(rv[2])
            elif rv[0] in ("ref", "ptr"):
                src = tp(rv[2])
            elif rv[0] == "agg":
                src = any(to(o) for o in rv[2])
            elif rv[0] == "bin":
                src = to(rv[2]) or to(rv[3])
            elif rv[0] == "un":
                src = to(rv[2])
            elif rv[0] == "disc":
                src = tp(rv[1])
            if src and s[1][0] not in taint:
                taint.add(s[1][0])
                changed = True
        for c in b.calls():
            hit = any(to(a) for a in c.args) or any(op_place(a) is not None and b.root(op_place(a))[0] in closure_taints for a in c.args)
            if not hit:
                continue
            new = {c.dest[0]}
            for a in c.args:
                if a[0] in ("cp", "mv") and (b.f["locals"][a[1][0]][0] or "").startswith("&mut "):
                    rl = referent(a)
                    if rl is not None:
                        new.add(rl)
            if not new <= taint:
                taint |= new
                changed = True
    return taint


def result_reaches_return(ctx, b, inner_body, inner_call):
    """does the value returned by `inner_call` (a call in `b` or in one of its closures) possibly reach the return value of `b`?"""
    if inner_body is b:
        return 0 in forward(b, {inner_call.dest[0]})
    # the closure must hand it out through its own return value or through a captured `&mut` (upvar _1)
    t = forward(inner_body, {inner_call.dest[0]})
    if not (0 in t or 1 in t):
        return False
    cl_locals = {}
    for i, j, s in b.all_stmts():
        if s[0] == "=" and s[2][0] == "agg" and s[2][1].get("k") == "closure":
            cls = ctx.prog.get(norm(s[2][1]["def"]))
            if cls and (cls[0] is inner_body or any(x[0] is inner_body for x in closures(ctx, cls[0]))):
                cl_locals[s[1][0]] = True
                # captured by unique borrow: the captured locals may be written by the closure
                if 1 in t:
                    for o in s[2][2]:
                        p = op_place(o)
                        d = b.single_def(p[0]) if p is not None and not p[1] else None
                        if d and d[0] == "stmt" and d[3][0] == "ref" and d[3][1] == "mut":
                            cl_locals[d[3][2][0]] = True
    if not cl_locals:
        return False
    seeds = {k for k in cl_locals if not (b.f["locals"][k][0] or "").startswith("{closure")}
    return 0 in forward(b, seeds, {k: True for k in cl_locals})


def upstream(b, call, hops=8):
    """names of the adaptor calls through which the receiver of `call` was produced (nearest first), and the root local it starts from"""
    names = []
    p = op_place(call.args[0]) if call.args else None
    root = None
    for _ in range(hops):
        if p is None:
            break
        rt = b.root(p)
        root = rt[0]
        d = b.single_def(rt[0])
        if d and d[0] == "call" and d[2].args:
            names.append(_cname(d[2]))
            p = op_place(d[2].args[0])
            continue
        if d and d[0] == "stmt" and d[3][0] in ("use",) and d[3][1][0] in ("cp", "mv"):
            p = d[3][1][1]
            continue
        if d and d[0] == "stmt" and d[3][0] in ("ref", "ptr"):
            p = d[3][2]
            continue
        break
    return names, root


def visits_every_item(ctx, b, body, call):
    """is `call` (in b: inside a loop; in a closure of b: the closure is run by an adaptor) executed once for every item of the sequence that
    is iterated?  -> (True, how) or (False, why not)"""
    from vlib.mir import switch_info
    if body is b:
        # inside a for/while-let loop over an iterator: some next() whose Some edge leads to the call and from the call back to that next()
        for nx in b.calls():
            if _cname(nx) != "next" or nx.target is None:
                continue
            if call.bb in b.reachable(nx.target) and call.target is not None and nx.bb in b.reachable(call.target):
                si = switch_info(b, nx.target)
                some = [s for s, l in (si["edges"].items() if si and si["kind"] == "disc" else []) if l == ["Some"]]
                if some and nx.bb in b.reachable(some[0], avoid={call.bb}):
                    return False, "an iteration can reach the next item without passing the call"
                names, _ = upstream(b, nx)
                bad = [n for n in names if n in SHORT_CIRCUIT]
                if bad:
                    return False, "the iterated sequence was narrowed by %s" % ",".join(bad)
                return True, "on every iteration of the loop"
        return False, "not inside a loop over an iterator"
    for cl, host, consumer, chain in closures(ctx, b):
        if cl is not body and not any(x[0] is body for x in closures(ctx, cl)):
            continue
        if host is None:
            return False, "the closure is not handed to an iterator adaptor"
        # every path through the closure reaches the call
        rets = [i for i in range(body.n) if body.term(i)[0] == "ret"]
        dom = body.dominators()
        if not all(call.bb in dom.get(r, set()) or call.bb == r for r in rets):
            return False, "a path through the closure returns without the call"
        bad = [n for n in chain[:1] if n in SHORT_CIRCUIT and n not in ("filter",)]
        names, _ = upstream(b, host)
        bad += [n for n in names if n in SHORT_CIRCUIT]
        if bad:
            return False, "the adaptor chain can stop early or skip items (%s)" % ",".join(bad)
        if consumer is not None and _cname(consumer) in LAZY:
            return False, "the adaptor chain is never consumed"
        return True, "once per item (%s)" % " -> ".join(chain)
    return False, "closure not found"


def upvar_operand(ctx, b, cl, place):
    """a place of closure body `cl` rooted in a captured variable `(*_1).k` -> the operand of the closure aggregate in `b` that fills
    capture k (or None)"""
    if place is None or place[0] != 1:
        return None
    fs = [x for x in place[1] if isinstance(x, list) and x[0] == "f"]
    if not fs:
        return None
    k = fs[0][1]
    for i, j, s in b.all_stmts():
        if s[0] == "=" and s[2][0] == "agg" and s[2][1].get("k") == "closure" and norm(s[2][1]["def"]) == norm(cl.id) and k < len(s[2][2]):
            return s[2][2][k]
    return None
