"""Numeric backward slice ("where does this number come from?"), interprocedural over workspace bodies.

Only values of numeric shape are followed (integers, tuples/Options/Results/Ranges of integers and references to them):
a byte offset that is used to cut a `&str` ends there, because the result is text and any number later computed from the
text (`chars().count()`) is a new quantity.  The slice reports the *sources* it reaches:

  ("const", text)                    integer literal
  ("field", owner adt, field name)   field of a non-numeric struct read on the way (e.g. Location.start)
  ("call", callee)                   result of a call the slice does not look through (external, numeric result, no numeric args)
  ("arg", body id, index)            parameter of the outermost body
"""
import re
from vlib.mir import op_place, norm, rvalue_operands

INT = r"(?:usize|isize|u8|u16|u32|u64|u128|i8|i16|i32|i64|i128)"
_NUM = re.compile(r"^(?:%s|bool)$" % INT)


def is_numeric_ty(ty):
    ty = ty.strip()
    while ty.startswith("&"):
        ty = ty[1:].strip()
        if ty.startswith("mut "):
            ty = ty[4:].strip()
        ty = re.sub(r"^'[a-z_{}]+ ", "", ty)
    if _NUM.match(ty):
        return True
    if ty.startswith("(") and ty.endswith(")"):
        parts = [p.strip() for p in ty[1:-1].split(",") if p.strip()]
        return bool(parts) and all(is_numeric_ty(p) for p in parts)
    m = re.match(r"^(?:core|std)::option::Option<(.*)>$", ty)
    if m:
        return is_numeric_ty(m.group(1))
    m = re.match(r"^(?:core|std)::ops::(?:range::)?Range(?:Inclusive|From|To)?<(.*)>$", ty)
    if m:
        return is_numeric_ty(m.group(1))
    m = re.match(r"^(?:core|std)::result::Result<([^,]*), .*>$", ty)
    if m:
        return is_numeric_ty(m.group(1))
    m = re.match(r"^(?:core|std)::ops::control_flow::ControlFlow<.*, ([^,<>]*)>$", ty)      # what `?` makes of an Option/Result of a number
    if m:
        return is_numeric_ty(m.group(1))
    return False


class Slice:
    def __init__(self, prog, max_depth=4):
        self.prog = prog
        self.max_depth = max_depth
        self.sources = set()
        self.calls = []          # (body, Call) of every call whose result the slice reached
        self.visited = set()
        self.trace = []

    # ---- helpers ---------------------------------------------------------------------------------
    def _fields_on(self, b, place):
        for pr in place[1]:
            if isinstance(pr, list) and pr[0] == "f" and pr[3] not in ("(tuple)", "core::option::Option", "core::result::Result",
                                                                      "core::ops::range::Range", "(closure)"):
                self.sources.add(("field", pr[3], pr[2]))

    def operand(self, b, op, frames):
        if op is None:
            return
        if op[0] == "c":
            if _NUM.match(op[1]):
                self.sources.add(("const", op[2]))
            return
        self.place(b, op[1], frames)

    def upvar(self, b, k):
        """operand captured as the k-th upvar of closure body `b`, and the body that builds the closure (the enclosing function
        or one of its other closures: `parent` names the outermost function)"""
        root = b.f.get("parent")
        if not root:
            return None, None
        me = norm(b.id)
        for cand in self.prog.bodies.values():
            if cand.id != root and not cand.id.startswith(root + "::"):
                continue
            for i, j, s in cand.all_stmts():
                if s[0] == "=" and s[2][0] == "agg" and isinstance(s[2][1], dict) and s[2][1].get("k") == "closure" and s[2][1].get("def") and \
                        norm(s[2][1]["def"]) == me and k < len(s[2][2]):
                    return cand, s[2][2][k]
        return None, None

    def place(self, b, place, frames):
        self._fields_on(b, place)
        # a captured variable of a closure: continue in the body that created the closure
        if b.f["dk"] == "Closure" and place[0] == 1:
            fs = [x for x in place[1] if isinstance(x, list) and x[0] == "f"]
            if fs and fs[0][3] == "(closure)":
                pb, op = self.upvar(b, fs[0][1])
                if pb is not None:
                    key = (b.id, "upvar", fs[0][1])
                    if key not in self.visited:
                        self.visited.add(key)
                        self.operand(pb, op, [])
                    return
        # field-sensitive for tuples: `_t.k` where `_t` is built by one tuple aggregate or returned by a workspace call
        pj = place[1]
        if pj and isinstance(pj[0], list) and pj[0][0] == "f" and pj[0][3] == "(tuple)" and place[0] > b.f["argc"]:
            k = pj[0][1]
            ds = b.defs.get(place[0], [])
            if len(ds) == 1:
                d = ds[0]
                if d[0] == "stmt" and d[3][0] == "agg" and d[3][1].get("k") == "tuple" and k < len(d[3][2]):
                    self.operand(b, d[3][2][k], frames)
                    return
                if d[0] == "call":
                    c = d[2]
                    tgt = self.prog.get(c.callee) if c.callee else []
                    if tgt and len(frames) < self.max_depth:
                        self.local_ret(tgt[0], frames + [(b, c)], k)
                        return
                    if not tgt:
                        self.sources.add(("callk", c.callee or c.u or "?", k))
        self.local(b, place[0], frames)

    def local(self, b, l, frames):
        key = (b.id, l, len(frames))
        if key in self.visited:
            return
        self.visited.add(key)
        if not is_numeric_ty(b.local_ty(l)):
            # a reference/struct on the way: follow single-def aliases only (to find the field that is being read)
            d = b.single_def(l)
            if d and d[0] == "stmt" and d[3][0] in ("ref", "use", "cast"):
                rv = d[3]
                src = rv[2] if rv[0] in ("ref",) else op_place(rv[1] if rv[0] == "use" else rv[2])
                if src is not None:
                    self._fields_on(b, src)
                    if src[0] != l:
                        self.local(b, src[0], frames)
            elif l <= b.f["argc"] and l >= 1:
                self.param(b, l, frames)
            return
        if 1 <= l <= b.f["argc"]:
            self.param(b, l, frames)
            return
        for d in b.defs.get(l, []):
            if d[0] == "stmt":
                rv = d[3]
                if rv[0] in ("ref", "ptr"):
                    self.place(b, rv[2], frames)
                elif rv[0] == "disc":
                    self.place(b, rv[1], frames)
                elif rv[0] == "len":
                    self.sources.add(("call", "len"))
                else:
                    for o in rvalue_operands(rv):
                        self.operand(b, o, frames)
            else:
                self.call(b, d[2], frames)
        # partial writes (`_5.0 = ...`)
        for i, j, s in b.all_stmts():
            if s[0] == "=" and s[1][0] == l and s[1][1]:
                for o in rvalue_operands(s[2]):
                    self.operand(b, o, frames)

    def param(self, b, l, frames):
        if not frames:
            self.sources.add(("arg", norm(b.id), l))
            # no calling context: continue in every workspace call site of this function (context-insensitive)
            if b.f["dk"] != "Closure":
                me = norm(b.id)
                if not hasattr(self, "_callers"):
                    self._callers = {}
                    for cb in self.prog.bodies.values():
                        for c in cb.calls():
                            if c.callee:
                                self._callers.setdefault(c.callee, []).append((cb, c))
                for cb, c in self._callers.get(me, []):
                    key = (cb.id, "callsite", c.bb, l)
                    if key in self.visited or l - 1 >= len(c.args):
                        continue
                    self.visited.add(key)
                    self.operand(cb, c.args[l - 1], [])
            return
        caller, call = frames[-1]
        rest = frames[:-1]
        if b.f["dk"] == "Closure":
            if l == 1:
                return      # the environment: captured values are handled through upvar fields (non-numeric refs mostly)
            # RustCall: arguments arrive as one tuple, second operand of Fn::call
            if len(call.args) >= 2:
                tp = op_place(call.args[1])
                if tp is not None:
                    k = l - 2
                    for d in caller.defs.get(tp[0], []):
                        if d[0] == "stmt" and d[3][0] == "agg" and k < len(d[3][2]):
                            self.operand(caller, d[3][2][k], rest)
            return
        if l - 1 < len(call.args):
            self.operand(caller, call.args[l - 1], rest)

    def call(self, b, c, frames):
        callee = c.callee or c.u or "?"
        tgt = self.prog.get(c.callee) if c.callee else []
        if tgt and len(frames) < self.max_depth:
            cb = tgt[0]
            self.local_ret(cb, frames + [(b, c)])
            return
        numeric_args = [a for a in c.args if (a[0] == "c" and _NUM.match(a[1])) or (op_place(a) is not None and is_numeric_ty(b.local_ty(op_place(a)[0])) and not op_place(a)[1])
                        or (op_place(a) is not None and op_place(a)[1] and a[1][1] and isinstance(a[1][1][-1], list) and a[1][1][-1][0] == "f" and is_numeric_ty(a[1][1][-1][5] or ""))]
        self.sources.add(("call", callee))
        self.calls.append((b, c))
        for a in numeric_args:
            self.operand(b, a, frames)

    def local_ret(self, cb, frames, k=None):
        key = (cb.id, "ret", len(frames), k)
        if key in self.visited:
            return
        self.visited.add(key)
        for d in cb.defs.get(0, []):
            if d[0] == "call" and k is not None:
                # component k of a tuple returned by a call the slice does not look into
                self.sources.add(("callk", d[2].callee or d[2].u or "?", k))
            if d[0] == "stmt":
                if k is not None and d[3][0] == "agg" and d[3][1].get("k") == "tuple" and k < len(d[3][2]):
                    self.operand(cb, d[3][2][k], frames)
                    continue
                for o in rvalue_operands(d[3]):
                    self.operand(cb, o, frames)
                if d[3][0] in ("ref",):
                    self.place(cb, d[3][2], frames)
            else:
                self.call(cb, d[2], frames)
        for i, j, s in cb.all_stmts():
            if s[0] == "=" and s[1][0] == 0 and s[1][1]:
                for o in rvalue_operands(s[2]):
                    self.operand(cb, o, frames)


def sources_of(prog, body, operand):
    s = Slice(prog)
    s.operand(body, operand, [])
    return s.sources


def slice_of(prog, body, operand):
    s = Slice(prog)
    s.operand(body, operand, [])
    return s
