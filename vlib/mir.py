"""Helpers over the structured MIR facts: CFG, call sites, aliases, dominators, call graph."""
import re
from collections import defaultdict, deque


def norm(path):
    """Strip generic argument lists `::<..>` (balanced) and lifetimes from a def path."""
    if path is None:
        return None
    out = []
    i, n = 0, len(path)
    while i < n:
        if path.startswith("::<", i):
            depth, j = 0, i + 2
            while j < n:
                if path[j] == "<":
                    depth += 1
                elif path[j] == ">":
                    depth -= 1
                    if depth == 0:
                        break
                j += 1
            i = j + 1
            continue
        out.append(path[i])
        i += 1
    return "".join(out)


class Call:
    __slots__ = ("bb", "callee", "u", "rk", "ga", "st", "args", "dest", "target", "unwind", "loc", "indirect", "raw")

    def __init__(self, bb, t):
        c = t[1]
        self.bb = bb
        self.raw = t
        self.callee = norm(c.get("d")) if c.get("d") else None
        self.u = norm(c.get("u")) if c.get("u") else None
        self.rk = c.get("rk")
        self.ga = c.get("ga")
        self.st = c.get("st")
        self.indirect = c.get("indirect")
        self.args = t[2]
        self.dest = t[3]
        self.target = t[4]
        self.unwind = t[5]
        self.loc = t[6]

    def names(self):
        return {x for x in (self.callee, self.u) if x}

    def __repr__(self):
        return "Call(bb%d %s)" % (self.bb, self.callee or "indirect")


def op_place(op):
    """place of a copy/move operand or None for constants"""
    if op and op[0] in ("cp", "mv"):
        return op[1]
    return None


def place_fields(place):
    """[(owner adt, variant, field name)] along the projection"""
    return [(p[3], p[4], p[2]) for p in place[1] if isinstance(p, list) and p[0] == "f"]


def is_local(place):
    return place is not None and not place[1]


class Body:
    def __init__(self, f):
        self.f = f
        self.id = f["id"]
        self.bbs = f["bbs"]
        self.n = len(self.bbs)
        self._calls = None
        self._preds = None
        self._defs = None
        self._dom = None

    # ---- CFG ------------------------------------------------------------------------------
    def term(self, i):
        return self.bbs[i]["t"]

    def succ(self, i, unwind=False):
        t = self.bbs[i]["t"]
        k = t[0]
        out = []
        if k == "goto":
            out = [t[1]]
        elif k == "switch":
            out = [x[1] for x in t[2]] + [t[3]]
        elif k == "call":
            if t[4] is not None:
                out = [t[4]]
            if unwind and isinstance(t[5], int):
                out.append(t[5])
        elif k == "assert":
            out = [t[5]]
            if unwind and isinstance(t[6], int):
                out.append(t[6])
        elif k == "drop":
            out = [t[2]]
            if unwind and isinstance(t[3], int):
                out.append(t[3])
        return out

    def is_cleanup(self, i):
        return self.bbs[i]["cu"]

    @property
    def preds(self):
        if self._preds is None:
            p = defaultdict(list)
            for i in range(self.n):
                for s in self.succ(i):
                    p[s].append(i)
            self._preds = p
        return self._preds

    def reachable(self, start=0, avoid=()):
        seen = set()
        st = [start]
        while st:
            b = st.pop()
            if b in seen or b in avoid:
                continue
            seen.add(b)
            st.extend(self.succ(b))
        return seen

    def returns(self):
        return [i for i in range(self.n) if self.bbs[i]["t"][0] == "ret" and not self.bbs[i]["cu"]]

    def dominators(self):
        """dom[b] = set of blocks dominating b (normal edges only, from bb0)."""
        if self._dom is None:
            reach = self.reachable(0)
            order = sorted(reach)
            dom = {b: set(order) for b in order}
            dom[0] = {0}
            changed = True
            while changed:
                changed = False
                for b in order:
                    if b == 0:
                        continue
                    ps = [p for p in self.preds[b] if p in dom]
                    if not ps:
                        continue
                    new = set.intersection(*[dom[p] for p in ps]) | {b}
                    if new != dom[b]:
                        dom[b] = new
                        changed = True
            self._dom = dom
        return self._dom

    # ---- statements / calls ---------------------------------------------------------------
    def calls(self):
        if self._calls is None:
            self._calls = [Call(i, b["t"]) for i, b in enumerate(self.bbs) if b["t"][0] == "call"]
        return self._calls

    def call_at(self, bb):
        t = self.bbs[bb]["t"]
        return Call(bb, t) if t[0] == "call" else None

    def stmts(self, bb):
        return self.bbs[bb]["s"]

    def all_stmts(self):
        for i, b in enumerate(self.bbs):
            for j, s in enumerate(b["s"]):
                yield i, j, s

    @property
    def defs(self):
        """local -> list of ('stmt', bb, idx, rvalue) | ('call', bb, Call) for whole-local assignments"""
        if self._defs is None:
            d = defaultdict(list)
            for i, j, s in self.all_stmts():
                if s[0] == "=" and not s[1][1]:
                    d[s[1][0]].append(("stmt", i, j, s[2]))
            for c in self.calls():
                if not c.dest[1]:
                    d[c.dest[0]].append(("call", c.bb, c))
            self._defs = d
        return self._defs

    def local_ty(self, l):
        return self.f["locals"][l][0]

    def local_name(self, l):
        return self.f["locals"][l][1]

    def single_def(self, l):
        ds = self.defs.get(l, [])
        return ds[0] if len(ds) == 1 else None

    def root(self, place, depth=8):
        """Follow single-def temporaries (`_a = &[mut] P`, `_a = move/copy P`, casts) back to the
        place they stand for.  Returns (local, [projection elems...]) with projections concatenated."""
        local, proj = place[0], list(place[1])
        for _ in range(depth):
            if local <= self.f["argc"]:
                break
            d = self.single_def(local)
            if not d or d[0] != "stmt":
                break
            rv = d[3]
            if rv[0] == "ref":
                src = rv[2]
                # a reference to P followed by deref gives P
                np = list(src[1])
                rest = proj
                if rest and rest[0] == "*":
                    rest = rest[1:]
                elif rest:
                    break
                local, proj = src[0], np + rest
            elif rv[0] == "use" and rv[1][0] in ("cp", "mv"):
                src = rv[1][1]
                local, proj = src[0], list(src[1]) + proj
            elif rv[0] == "cast" and rv[2][0] in ("cp", "mv"):
                src = rv[2][1]
                local, proj = src[0], list(src[1]) + proj
            else:
                break
        return (local, proj)

    def const_of(self, op, depth=6):
        """constant operand value (following single-def temporaries), or None"""
        for _ in range(depth):
            if op[0] == "c":
                m = re.search(r"::promoted\[(\d+)\]$", op[2])
                if m:
                    pr = self.f.get("promoted", [])
                    k = int(m.group(1))
                    if k < len(pr) and len(pr[k]) == 1:
                        return pr[k][0]
                return op
            pl = op[1]
            if pl[1] and pl[1] != ["*"]:
                return None
            d = self.single_def(pl[0])
            if not d or d[0] != "stmt":
                return None
            rv = d[3]
            if rv[0] == "use":
                op = rv[1]
            elif rv[0] == "ref" and rv[2][1] in ([], ["*"]):
                op = ["cp", [rv[2][0], []]]
            elif rv[0] == "cast":
                op = rv[2]
            else:
                return None
        return None

    def const_str(self, op):
        c = self.const_of(op)
        if c is not None and len(c) > 3 and isinstance(c[3], dict) and "str" in c[3]:
            return c[3]["str"]
        return None

    def operands(self):
        """yield (bb, where, operand) for every operand in statements and terminators"""
        for i, b in enumerate(self.bbs):
            for j, s in enumerate(b["s"]):
                if s[0] != "=":
                    continue
                for o in rvalue_operands(s[2]):
                    yield i, ("s", j), o
            t = b["t"]
            if t[0] == "call":
                for o in t[2]:
                    yield i, ("t",), o
                if t[1].get("indirect"):
                    yield i, ("t",), t[1]["indirect"]
            elif t[0] == "switch":
                yield i, ("t",), t[1]
            elif t[0] == "assert":
                yield i, ("t",), t[1]
                for o in t[4]:
                    yield i, ("t",), o

    def place_uses(self):
        """yield (bb, kind, place): kind in read (copy/move operand, shared ref, discriminant),
        mutref, write (assignment target), drop"""
        for i, b in enumerate(self.bbs):
            for j, s in enumerate(b["s"]):
                if s[0] == "=":
                    yield i, "write", s[1]
                    rv = s[2]
                    if rv[0] == "ref":
                        yield i, ("mutref" if rv[1] == "mut" else "read"), rv[2]
                    elif rv[0] == "ptr":
                        yield i, "mutref", rv[2]
                    elif rv[0] == "disc":
                        yield i, "read", rv[1]
                    for o in rvalue_operands(rv):
                        p = op_place(o)
                        if p:
                            yield i, ("move" if o[0] == "mv" else "read"), p
                elif s[0] == "sd":
                    yield i, "write", s[1]
            t = b["t"]
            if t[0] == "call":
                for o in t[2]:
                    p = op_place(o)
                    if p:
                        yield i, ("move" if o[0] == "mv" else "read"), p
                yield i, "write", t[3]
            elif t[0] == "switch":
                p = op_place(t[1])
                if p:
                    yield i, "read", p
            elif t[0] == "drop":
                yield i, "drop", t[1]


def rvalue_operands(rv):
    k = rv[0]
    if k == "use":
        return [rv[1]]
    if k == "rep":
        return [rv[1]]
    if k == "cast":
        return [rv[2]]
    if k == "bin":
        return [rv[2], rv[3]]
    if k == "un":
        return [rv[2]]
    if k == "agg":
        return rv[2]
    return []


class Program:
    """Whole-workspace view: bodies, call graph over resolved callees."""

    def __init__(self, facts):
        self.facts = facts
        self.bodies = {}
        self.by_norm = defaultdict(list)
        for fid, f in facts.fns.items():
            b = Body(f)
            self.bodies[fid] = b
            self.by_norm[norm(fid)].append(b)
        # trait method -> implementations in the workspace  (for virtual / unresolved calls)
        self.impls = defaultdict(list)
        for fid, f in facts.fns.items():
            im = f.get("impl")
            if im and im.get("trait_def"):
                self.impls[norm(im["trait_def"]) + "::" + f["name"]].append(self.bodies[fid])
        self._edges = None

    def body(self, fid):
        return self.bodies.get(fid)

    def get(self, normed):
        r = self.by_norm.get(normed, [])
        return r

    def callees_of(self, body):
        """list of (Body|None, name, site) — site is a Call or ('fnconst'|'closure', bb, loc)"""
        out = []
        for c in body.calls():
            if c.callee is None:
                out.append((None, "(indirect)", c))
                continue
            targets = []
            if c.rk in ("virtual", "unresolved"):
                targets = list(self.impls.get(c.u, []))
                # plus the trait's default body, if any
                targets += self.get(c.u)
            else:
                targets = self.get(c.callee)
            if targets:
                for t in targets:
                    out.append((t, c.callee, c))
            else:
                out.append((None, c.callee, c))
        # function constants used as values, closures constructed here
        for i, where, o in body.operands():
            if o[0] == "c" and len(o) > 3 and isinstance(o[3], dict) and "rfn" in o[3]:
                # skip the callee constants of direct calls (already handled): those are not operands
                for t in self.get(norm(o[3]["rfn"])):
                    out.append((t, norm(o[3]["rfn"]), ("fnconst", i)))
        for i, j, s in body.all_stmts():
            if s[0] == "=" and s[2][0] == "agg" and s[2][1].get("k") == "closure":
                for t in self.get(norm(s[2][1]["def"])):
                    out.append((t, norm(s[2][1]["def"]), ("closure", i)))
        return out

    def reachable_from(self, entries):
        """BFS over workspace bodies; returns {fid: (parent fid, site)}"""
        seen = {}
        dq = deque()
        for e in entries:
            seen[e.id] = (None, None)
            dq.append(e)
        while dq:
            b = dq.popleft()
            for t, name, site in self.callees_of(b):
                if t is not None and t.id not in seen:
                    seen[t.id] = (b.id, site)
                    dq.append(t)
        return seen

    def path_to(self, seen, fid):
        p = []
        while fid is not None:
            p.append(fid)
            fid = seen[fid][0]
        return list(reversed(p))


def loc_str(f, loc):
    """file:line of a statement/terminator location"""
    file = loc[3] if len(loc) > 3 and loc[3] else f["file"]
    return "%s:%d" % (file, loc[0])


def loc_macro(loc):
    """(outermost macro, innermost macro) for code from a macro expansion, else None"""
    if len(loc) > 2 and loc[2]:
        return (loc[4], loc[5])
    return None


# ---- path-sensitive helpers -----------------------------------------------------------------------

def switch_info(b, bb):
    """Describe what a SwitchInt tests.
    Returns None or dict(kind='disc'|'bool'|'int', subject=<origin>, edges={succ_bb: label}) where subject is
    ('call', Call) when the tested value is (a projection of) a call result, ('bin', op, a, b) for comparisons,
    ('place', root) otherwise; label is the variant name / True / False / integer string / 'otherwise'."""
    t = b.term(bb)
    if t[0] != "switch":
        return None
    p = op_place(t[1])
    if p is None:
        return None
    d = b.single_def(p[0]) if not p[1] else None
    if d is None and not p[1] and b.local_ty(p[0]) == "bool":
        ft = [x[1] for x in t[2] if x[0] == "0"]
        if len(t[2]) == 1 and ft:
            return {"kind": "bool", "subject": ("place", (p[0], [])), "edges": {ft[0]: [False], t[3]: [True]}}
    neg = False
    if d and d[0] == "stmt" and d[3][0] == "un" and d[3][1] == "Not":
        neg = True
        ip = op_place(d[3][2])
        d = b.single_def(ip[0]) if ip and not ip[1] else None
    if d and d[0] == "stmt" and d[3][0] == "disc":
        place = d[3][1]
        names = dict((v, n) for v, n in d[3][3])
        root = b.root(place)
        subj = ("place", root)
        dd = b.single_def(root[0])
        if dd and dd[0] == "call":
            subj = ("call", dd[2], root[1])
        edges = {}
        for v, tgt in t[2]:
            edges.setdefault(tgt, []).append(names.get(v, v))
        handled = {n for ns in edges.values() for n in ns}
        rest = [n for n in names.values() if n not in handled]
        if b.term(t[3])[0] != "unreach":
            edges.setdefault(t[3], []).extend(rest or ["otherwise"])
        return {"kind": "disc", "subject": subj, "edges": edges, "adt": d[3][2]}
    if d and d[0] == "call":
        ft = [x[1] for x in t[2] if x[0] == "0"]
        if len(t[2]) == 1 and ft:
            return {"kind": "bool", "subject": ("call", d[2], []), "edges": {ft[0]: [neg], t[3]: [not neg]}}
    if d and d[0] == "stmt" and d[3][0] == "bin":
        ft = [x[1] for x in t[2] if x[0] == "0"]
        if len(t[2]) == 1 and ft:
            return {"kind": "bool", "subject": ("bin", d[3][1], d[3][2], d[3][3]), "edges": {ft[0]: [neg], t[3]: [not neg]}}
    if d and d[0] == "stmt" and d[3][0] == "use" and d[3][1][0] in ("cp", "mv"):
        # a copied flag / field
        src = d[3][1][1]
        ft = [x[1] for x in t[2] if x[0] == "0"]
        if len(t[2]) == 1 and ft:
            return {"kind": "bool", "subject": ("place", b.root(src)), "edges": {ft[0]: [neg], t[3]: [not neg]}}
    edges = {}
    for v, tgt in t[2]:
        edges.setdefault(tgt, []).append(v)
    edges.setdefault(t[3], []).append("otherwise")
    return {"kind": "int", "subject": ("place", b.root(p)), "edges": edges}


def explore(b, init, step, edge=None, start=0, limit=20000):
    """Path-state exploration (forward, set-of-states per block, fixpoint).
    step(state, bb) -> state after the block's statements+terminator (or None to drop the path)
    edge(state, bb, succ) -> state on that edge (or None to drop)
    Returns {bb: set(states at block exit)} for blocks ending in `ret`, plus all states seen."""
    at = {start: {init}}
    work = [start]
    rets = {}
    n = 0
    while work:
        bb = work.pop()
        outs = set()
        for st in at[bb]:
            s2 = step(st, bb)
            if s2 is not None:
                outs.add(s2)
        if b.term(bb)[0] == "ret":
            rets.setdefault(bb, set()).update(outs)
        for s in b.succ(bb):
            new = set()
            for st in outs:
                s3 = edge(st, bb, s) if edge else st
                if s3 is not None:
                    new.add(s3)
            old = at.get(s, set())
            if not new <= old:
                at[s] = old | new
                work.append(s)
                n += 1
                if n > limit:
                    raise RuntimeError("explore: state explosion in %s" % b.id)
    return rets
