#!/usr/bin/env python3
"""maintenance helper (not a check): drive `ironplcc lsp` over stdio with a scripted message list to confirm defects / fixes.
usage: tools_lsp.py <ironplcc> '<json list of messages>'   (initialize/initialized are sent first, shutdown/exit last)"""
import json, subprocess, sys, threading, time
exe = sys.argv[1]
msgs = json.loads(sys.argv[2])
p = subprocess.Popen([exe, "lsp", "--stdio"], stdin=subprocess.PIPE, stdout=subprocess.PIPE, stderr=subprocess.PIPE)
out = []
def reader():
    while True:
        h = b""
        while not h.endswith(b"\r\n\r\n"):
            c = p.stdout.read(1)
            if not c:
                return
            h += c
        n = int([l for l in h.decode().split("\r\n") if l.lower().startswith("content-length")][0].split(":")[1])
        out.append(json.loads(p.stdout.read(n)))
t = threading.Thread(target=reader, daemon=True); t.start()
def send(m):
    b = json.dumps(m).encode()
    try:
        p.stdin.write(b"Content-Length: %d\r\n\r\n" % len(b) + b); p.stdin.flush()
    except BrokenPipeError:
        pass
send({"jsonrpc": "2.0", "id": 1, "method": "initialize", "params": {"capabilities": {}}})
time.sleep(0.3)
send({"jsonrpc": "2.0", "method": "initialized", "params": {}})
for m in msgs:
    m.setdefault("jsonrpc", "2.0"); send(m); time.sleep(0.15)
send({"jsonrpc": "2.0", "id": 9999, "method": "shutdown"}); time.sleep(0.3)
send({"jsonrpc": "2.0", "method": "exit"})
try:
    rc = p.wait(timeout=5)
except subprocess.TimeoutExpired:
    p.kill(); rc = "timeout"
time.sleep(0.1)
for o in out[1:]:
    print(json.dumps(o)[:400])
print("exit status:", rc)
err = p.stderr.read().decode()
if "panicked" in err:
    print("STDERR:", [l for l in err.splitlines() if "panicked" in l][:2])
